"""C07: fileset view follows the setfile; open iterators pin their snapshot; dup'ed handles stay current."""
from vdriver import Query

FUNCS = ["mtbl_fileset_init", "mtbl_fileset_dup", "mtbl_fileset_destroy", "mtbl_fileset_source", "mtbl_fileset_reload",
         "mtbl_fileset_reload_now", "fs_reinit_merger", "fs_load", "fs_unload", "fileset_source_iter/get/get_prefix/get_range",
         "fileset_iter_init", "fileset_iter_free", "mtbl_fileset_set_options", "mtbl_fileset_options_*", "my_gettime"]
STUBS = ["my_fileset_*: ghost setfile generations (any subset of three names per change; unchanged setfile => reload is a no-op; load/unload callbacks for the difference)",
         "clock_gettime(CLOCK_MONOTONIC): ghost clock, moved only by the 't' operation by an arbitrary amount >= 0 (so successive readings may be equal)",
         "mtbl_reader_init/destroy: ghost readers with an alive flag", "merger/source/iter API: ghost objects recording which readers an iterator reads from"]


def fq(name, ops, ia=60, ib=60, witness=False, sametick=0):
    d = {"OPS": '"%s"' % ops, "INTERVAL_A": ia, "INTERVAL_B": ib, "SAMETICK": sametick}
    return Query(name, harness="c_fileset.c", entry="h_fileset", defines=d, unwind=max(14, len(ops) + 4),
                 flags=["--max-field-sensitivity-array-size", "1024"], object_bits=12, timeout=900, mem_gb=10,
                 leak_check=True, witness=witness,
                 sample={"history": ops, "legend": "a/b open iterator on A/B, x/y close, r/R reload/reload_now on A, q/Q on B, c setfile changes, t time passes, d dup, D/E destroy",
                         "reload_interval_A": ia, "reload_interval_B": ib, "clock_and_generations": "solver variables"})


NEVER = 4294967295


def mfq(name, gens, exists=None, witness=False):
    """libmy/my_fileset.c itself: concrete line lists per generation (indices 0..2 = "a", "b", "/d/c"; repeats allowed)."""
    ng = len(gens)
    exists = exists or [7] * ng
    rows = ",".join("{" + ",".join(str(x) for x in (list(g) + [-1] * 4)[:4]) + "}" for g in gens)
    d = {"NG": ng, "GENS": "{" + rows + "}", "EXISTS": "{" + ",".join(str(x) for x in exists) + "}"}
    return Query(name, harness="c07_myfileset.c", entry="h_myfileset", defines=d, units=[], unwind=14, object_bits=10, timeout=600, mem_gb=8,
                 leak_check=True, witness=witness,
                 sample={"setfile_lines_per_generation": gens, "legend": "0 = a, 1 = b (relative), 2 = /d/c (absolute), 3 = /d/a (file a again, absolute); repeats allowed",
                         "files_existing_per_generation(bitmask)": exists, "symbolic": "whether each generation's setfile differs from the previous one in inode or in mtime or not at all"})


def myfileset_queries(quick):
    tabs = [
        ("ab_bc", [[0, 1], [1, 2]], None), ("abc_none", [[0, 1, 2], []], None), ("none_a", [[], [0]], None), ("cab_b", [[2, 0, 1], [1]], None),
        ("ab_ab_missing_then_there", [[0, 1], [0, 1]], [5, 7]), ("abc_abc_vanishes", [[0, 1, 2], [0, 1, 2]], [7, 3]),
        ("a_ab_b", [[0], [0, 1], [1]], None), ("ba_c_ab", [[1, 0], [2], [0, 1]], None),
        # a file named more than once (F12)
        ("aa_aab", [[0, 0], [0, 0, 1]], None), ("aa_a", [[0, 0], [0]], None), ("bab_bb", [[1, 0, 1], [1, 1]], None), ("a_aa", [[0], [0, 0]], None),
        ("aa_aa_a", [[0, 0], [0, 0], [0]], None), ("cc_cbc", [[2, 2], [2, 1, 2]], None),
        ("aA_Aab", [[0, 3], [3, 0, 1]], None), ("A_a", [[3], [0]], None),            # 3 = "/d/a": the same file as line 0, spelled absolutely
    ]
    if not quick:
        tabs += [("abc_cba_b", [[0, 1, 2], [2, 1, 0], [1]], None), ("a_b_c", [[0], [1], [2]], None), ("aab_abb_ab", [[0, 0, 1], [0, 1, 1], [0, 1]], None),
                 ("aaa_aaa", [[0, 0, 0], [0, 0, 0]], None), ("ab_ba_gone", [[0, 1], [1, 0], [0, 1]], [7, 7, 0]), ("aabb_ab", [[0, 0, 1, 1], [0, 1]], None),
                 ("abca_ca", [[0, 1, 2, 0], [2, 0]], [7, 6])]
    return [mfq("myfileset_" + t, g, e, witness=(t == "ab_bc")) for t, g, e in tabs]


def build(tier, seed):
    quick = tier == "quick"
    hist = [
        "acxa", "actxa", "acatxa", "aRcxa", "acRxa", "acRxtca",            # single handle: change, time, reload_now with open iterators
        "adbyxRtcRb", "adbyxctRb", "adctbyxb", "adbcyxRb", "adxRctRbya",     # dup: reloads through one handle, use through the other
        "adbyxcRtcQa", "adcQtcRab", "adxDbcQb", "adEacRa", "abx",
        "artcra", "axctRctRa", "actaxxa",
        "adbyxcRQb", "adcRQba", "adbyxcQRa",                                   # reload_now through both handles back to back
        "agcRa", "adhcQtcRab", "agxcRga",                                       # keyed lookups that may match nothing
    ]
    if not quick:
        hist += ["adbyxRcRb", "adRcRbyxa", "adbxyRtcRtcRba", "adcRcRcRb", "adtctctb", "adbyxQtcQa", "adbcxyqtca", "acxtcatcxa",
                 "adxcRbytcRb", "adbRycRxtcRba", "aaxcxRa", "adbbyyxcRb"]
    qs = []
    for i, h in enumerate(hist):
        for ia, ib in (((60, 60), (0, NEVER)) if quick else ((60, 60), (0, 0), (0, NEVER), (NEVER, 60), (NEVER, NEVER))):
            qs.append(fq("hist_%s_i%s_%s" % (h, "N" if ia == NEVER else ia, "N" if ib == NEVER else ib), h, ia, ib, witness=(i in (0, 6) and ia == 60)))
    qs += myfileset_queries(quick)
    meta = {
        "functions": FUNCS + ["my_fileset_init", "my_fileset_reload", "my_fileset_get", "my_fileset_destroy", "setfile_updated", "fetch_entry", "cmp_fileset_entry", "path_exists"],
        "units": ["mtbl/fileset.c", "libmy/my_time.h", "libmy/my_fileset.c"],
        "bounds": "histories of <= 14 operations over {open/close iterator on either of two handles, reload, reload_now, setfile change, time passes, dup with another filename filter and interval, destroy in either order}; every clock reading (incl. equal successive readings, as CLOCK_MONOTONIC allows) and every setfile generation (any subset of three names) is a solver variable; reload intervals 0, 60, NEVER per handle",
        "outside": "fileset.c and libmy/my_fileset.c are decided in separate queries that meet at my_fileset's contract (fileset.c against the contract model; the real my_fileset.c against enumerated setfile generations: <= 3 generations of <= 4 lines over three names incl. repeated names, relative/absolute spelling, files missing/appearing; change of inode or mtime or none is the solver variable); setfile lines with other spellings of one file (./a vs a), longer setfiles; more than two handles / three names; iterator kinds other than plain iteration share the same code path (fileset_source_get* call the same reload + init)",
        "stubs": STUBS + ["my_fileset.c queries: stat (setfile inode/mtime per generation, existence per name), fopen/getline/fclose (the generation's lines), dirname fixed, qsort = insertion sort, bsearch = first matching element, load callback hands out a fresh object per call and unload records destruction"],
        "assumptions": ["fileset.c queries: my_fileset_reload loads/unloads exactly the difference between the old and new setfile and does nothing when the setfile is unchanged -- what the my_fileset.c queries decide for the enumerated generations"],
        "exhaustive": False,
    }
    return qs, meta
