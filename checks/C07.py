"""C07: fileset view follows the setfile; open iterators pin their snapshot; dup'ed handles stay current."""
from vdriver import Query

FUNCS = ["mtbl_fileset_init", "mtbl_fileset_dup", "mtbl_fileset_destroy", "mtbl_fileset_source", "mtbl_fileset_reload",
         "mtbl_fileset_reload_now", "fs_reinit_merger", "fs_load", "fs_unload", "fileset_source_iter/get/get_prefix/get_range",
         "fileset_iter_init", "fileset_iter_free", "mtbl_fileset_set_options", "mtbl_fileset_options_*", "my_gettime"]
STUBS = ["my_fileset_*: ghost setfile generations (any subset of three names per change; unchanged setfile => reload is a no-op; load/unload callbacks for the difference)",
         "clock_gettime(CLOCK_MONOTONIC): ghost clock, moved only by the 't' operation by an arbitrary amount >= 0 (so successive readings may be equal)",
         "mtbl_reader_init/destroy: ghost readers with an alive flag", "merger/source/iter API: ghost objects recording which readers an iterator reads from"]


def fq(name, ops, ia=60, ib=60, witness=False, sametick=0):
    d = {"OPS": '"%s"' % ops, "INTERVAL_A": ia, "INTERVAL_B": ib, "SAMETICK": sametick}
    return Query(name, harness="c_fileset.c", entry="h_fileset", defines=d, unwind=max(14, len(ops) + 4),
                 flags=["--max-field-sensitivity-array-size", "1024"], object_bits=12, timeout=900, mem_gb=10,
                 leak_check=True, witness=witness,
                 sample={"history": ops, "legend": "a/b open iterator on A/B, x/y close, r/R reload/reload_now on A, q/Q on B, c setfile changes, t time passes, d dup, D/E destroy",
                         "reload_interval_A": ia, "reload_interval_B": ib, "clock_and_generations": "solver variables"})


NEVER = 4294967295


def build(tier, seed):
    quick = tier == "quick"
    hist = [
        "acxa", "actxa", "acatxa", "aRcxa", "acRxa", "acRxtca",            # single handle: change, time, reload_now with open iterators
        "adbyxRtcRb", "adbyxctRb", "adctbyxb", "adbcyxRb", "adxRctRbya",     # dup: reloads through one handle, use through the other
        "adbyxcRtcQa", "adcQtcRab", "adxDbcQb", "adEacRa", "abx",
        "artcra", "axctRctRa", "actaxxa",
        "adbyxcRQb", "adcRQba", "adbyxcQRa",                                   # reload_now through both handles back to back
        "agcRa", "adhcQtcRab", "agxcRga",                                       # keyed lookups that may match nothing
    ]
    if not quick:
        hist += ["adbyxRcRb", "adRcRbyxa", "adbxyRtcRtcRba", "adcRcRcRb", "adtctctb", "adbyxQtcQa", "adbcxyqtca", "acxtcatcxa",
                 "adxcRbytcRb", "adbRycRxtcRba", "aaxcxRa", "adbbyyxcRb"]
    qs = []
    for i, h in enumerate(hist):
        for ia, ib in (((60, 60), (0, NEVER)) if quick else ((60, 60), (0, 0), (0, NEVER), (NEVER, 60), (NEVER, NEVER))):
            qs.append(fq("hist_%s_i%s_%s" % (h, "N" if ia == NEVER else ia, "N" if ib == NEVER else ib), h, ia, ib, witness=(i in (0, 6) and ia == 60)))
    meta = {
        "functions": FUNCS, "units": ["mtbl/fileset.c", "libmy/my_time.h"],
        "bounds": "histories of <= 14 operations over {open/close iterator on either of two handles, reload, reload_now, setfile change, time passes, dup with another filename filter and interval, destroy in either order}; every clock reading (incl. equal successive readings, as CLOCK_MONOTONIC allows) and every setfile generation (any subset of three names) is a solver variable; reload intervals 0, 60, NEVER per handle",
        "outside": "libmy/my_fileset.c itself (stat/fopen/getline/qsort/bsearch of the real setfile) is modelled by its contract; more than two handles / three names; iterator kinds other than plain iteration share the same code path (fileset_source_get* call the same reload + init)",
        "stubs": STUBS,
        "assumptions": ["my_fileset_reload loads/unloads exactly the difference between the old and new setfile and does nothing when the setfile is unchanged"],
        "exhaustive": False,
    }
    return qs, meta
