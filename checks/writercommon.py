"""Shared query builder for the writer-level harness (harness/c_writer.c)."""
import shapes
from vdriver import Query

UNITS = ["mtbl/metadata.c", "mtbl/varint.c", "mtbl/fixed.c"]
FUNCS = ["mtbl_writer_init_fd", "mtbl_writer_init", "mtbl_writer_add", "_mtbl_writer_flush", "_mtbl_writer_finish",
         "_mtbl_writer_compress_block", "_mtbl_writer_write_block", "_mtbl_writer_write_data_block", "_write_all",
         "mtbl_writer_destroy", "mtbl_writer_options_*", "bytes_shortest_separator", "bytes_compare",
         "block_builder_add", "block_builder_finish", "block_builder_reset", "block_builder_current_size_estimate",
         "block_builder_empty", "block_builder_destroy", "metadata_write", "mtbl_varint_encode32/64", "mtbl_fixed_encode32/64",
         "ubuf/uint64_vec (libmy/vector.h)"]
STUBS = ["write/lseek/dup/close/open: ghost file (data area + trailer captured separately), ghost descriptor counters",
         "mtbl_crc32c: uninterpreted function, every call logged with a copy of the bytes it was given",
         "mtbl_compress/mtbl_compress_level: ghost identity codec recording algorithm and level",
         "threadpool API: unused (no pool)",
         "block builders re-created with small buffer capacities (96/8/8 instead of 65536/256/64); options installed white-box after init(NULL)"]

US = {"metadata_write.0": 440, "decode_and_check.0": 440, "ubuf_reserve.0": 2, "uint64_vec_add.0": 2}


def est_size(kls, vls, pfx):
    n = len(kls)
    return pfx + sum(3 + k + v for k, v in zip(kls, vls)) + n * (9 + 8) + n * (6 + max(kls + [1])) + 16


def wq(name, kls, lcps, vls, ri=1, bs=40, pfx=0, compw=0, levelw=None, perm=None, frag=0, pool=0, deliver=3, entry="h_write",
       extra=None, special=None, base=0x40, timeout=900, mem_gb=10, witness=True, us=None, sample=None):
    n = len(kls)
    big = est_size(kls, vls, pfx) >= 250 or max(list(vls) + list(kls) + [0]) > 40
    klmax = max([4] + list(kls))
    vlmax = max([4] + list(vls))
    d = {"N": n, "KLS": shapes.clist(kls), "VLS": shapes.clist(vls), "KLMAX": klmax, "VLMAX": vlmax,
         "RI": ri, "BS": bs, "PFX": pfx, "COMPW": compw, "FRAG": frag, "WPOOL": pool, "WDELIVER": deliver}
    if lcps is not None and n > 0:
        rep = sorted({i for i in (perm or []) if (perm or []).count(i) > 1})
        d["KT"] = shapes.cbytes2(shapes.key_templates(kls, lcps, base=base, special=special, all_concrete=rep), klmax)
    if levelw is not None:
        d["LEVELW"] = "(%d)" % levelw
    if perm is not None:
        d["NADDS"] = len(perm)
        d["PERM"] = shapes.clist(perm)
    if big:
        # long keys/values (>= 128-byte lengths need two-byte varints): larger ghost file and write window
        d["GMAX"] = est_size(kls, vls, pfx) + 64
        d["WMAX"] = 3 * 5 + max(kls + [0]) + max(vls + [0]) + sum(4 for _ in kls) + 48
    if extra:
        d.update(extra)
    u = dict(US)
    if big:
        u["ubuf_reserve.0"] = 6
    if us:
        u.update(us)
    smp = {"key_lens": kls, "common_prefix_lens": lcps, "val_lens": vls, "restart_interval": ri, "block_size": bs,
           "foreign_prefix": pfx, "compression": compw, "level": levelw, "add_order": perm, "fragmenting_write": bool(frag), "pool": bool(pool), "pool_delivery": ["at once", "next pool call", "only at join", "solver-chosen"][deliver] if pool else None,
           "content": "key bytes symbolic except the one byte per adjacent pair that decides their order; all value bytes symbolic; CRC values symbolic"}
    if sample:
        smp.update(sample)
    return Query(name, harness="c_writer.c", entry=entry, defines=d, units=UNITS, unwind=(d.get("WMAX", 64) + 2), unwindset=u,
                 flags=["--max-field-sensitivity-array-size", "1024"], object_bits=12, timeout=timeout, mem_gb=mem_gb,
                 sample=smp, leak_check=(entry == "h_write"), witness=witness)


# (tag, key lens, lcps, value lens)
TABLES = [
    ("t3", [2, 1, 2], [0, 0, 1], [1, 1, 1]),
    ("t4", [2, 1, 2, 3], [0, 0, 1, 1], [1, 0, 1, 2]),
    ("t4e", [0, 1, 2, 2], [0, 0, 1, 1], [0, 1, 0, 1]),          # empty key, empty values
    ("t5", [1, 2, 3, 3, 1], [0, 1, 2, 2, 0], [1, 1, 1, 1, 1]),   # long shared prefixes
    ("t6", [1, 1, 2, 2, 2, 1], [0, 0, 0, 1, 1, 0], [0, 0, 0, 0, 0, 0]),
    ("t1", [3], [0], [2]),
    ("t0", [], [], []),                                           # empty table
    ("tb", [2, 3], [0, 1], [20, 30]),                             # entries larger than a block
]


def standard_shapes(tier, prefix):
    """(name, kwargs) for the round-trip / well-formedness / statistics checks"""
    out = []
    quick = tier == "quick"
    ris = [1, 2, 16] if quick else [1, 2, 3, 4, 16]
    bss = [28, 40, 200] if quick else [24, 28, 32, 36, 40, 48, 56, 200]
    for tag, kls, lcps, vls in TABLES:
        for ri in ris:
            for bs in bss:
                if tag in ("t0", "t1") and (bs != 40 or ri not in (1, 16)):
                    continue
                if tag == "tb" and bs not in (28, 40):
                    continue
                if quick and tag in ("t5", "t6") and (ri, bs) not in ((2, 40), (16, 28), (1, 200)):
                    continue
                out.append(("%s_%s_ri%d_bs%d" % (prefix, tag, ri, bs), dict(kls=kls, lcps=lcps, vls=vls, ri=ri, bs=bs)))
    # foreign prefix, compression ids / levels
    for pfx in ([5] if quick else [1, 5, 17]):
        out.append(("%s_t4_pfx%d" % (prefix, pfx), dict(kls=[2, 1, 2, 3], lcps=[0, 0, 1, 1], vls=[1, 0, 1, 2], ri=2, bs=36, pfx=pfx)))
        out.append(("%s_t0_pfx%d" % (prefix, pfx), dict(kls=[], lcps=[], vls=[], ri=2, bs=36, pfx=pfx)))
    for comp in ([2, 5] if quick else [1, 2, 3, 4, 5]):
        for lv in ((None, 3) if not quick else (None,)):
            out.append(("%s_t4_c%d_l%s" % (prefix, comp, lv), dict(kls=[2, 1, 2, 3], lcps=[0, 0, 1, 1], vls=[1, 0, 1, 2], ri=2, bs=36, compw=comp, levelw=lv)))
    out.append(("%s_t4_c2_lm7" % prefix, dict(kls=[2, 1, 2, 3], lcps=[0, 0, 1, 1], vls=[1, 0, 1, 2], ri=2, bs=36, compw=2, levelw=-7)))
    # lengths at the one-byte / two-byte varint boundary (127, 128, 129) next to small entries
    for vl in (127, 128, 129):
        out.append(("%s_len%d_val" % (prefix, vl), dict(kls=[1, 1], lcps=[0, 0], vls=[vl, 1], ri=2, bs=400)))
    out.append(("%s_len128_emptykey" % prefix, dict(kls=[0, 1], lcps=[0, 0], vls=[128, 0], ri=1, bs=400)))
    # keys sharing a prefix of 127 / 128 / 129 bytes (the shared-length varint turns two bytes long)
    for sh in (() if prefix != "wf" else (128,) if tier == "quick" else (127, 128, 129)):     # C09 only: ~2-4 min each
        out.append(("%s_shared%d" % (prefix, sh), dict(kls=[sh + 1, sh + 2], lcps=[0, sh], vls=[1, 1], ri=2, bs=900)))
    # bytes >= 0x80 and 0xff / 0x00 at the deciding positions
    out.append(("%s_t4_hi" % prefix, dict(kls=[2, 1, 2, 3], lcps=[0, 0, 1, 1], vls=[1, 0, 1, 2], ri=2, bs=36, base=0xf6)))
    out.append(("%s_t3_ff" % prefix, dict(kls=[1, 2, 2], lcps=[0, 1, 1], vls=[1, 1, 1], ri=2, bs=30, special={(1, 1): 0xfe, (2, 1): 0xff})))
    return out
