"""C15 compression glue: mtbl/compression.c against contract models of the four libraries"""
import vdriver
from vdriver import Query

UNITS = ["mtbl/compression.c", "mtbl/fixed.c", "/verif/stubs/codecs_stub.c"]
NATIVE_UNITS = ["mtbl/compression.c", "mtbl/fixed.c"]
NLIBS = ["-lz", "-llz4", "-lzstd", "-lsnappy"]
ALGS = {0: "none", 1: "snappy", 2: "zlib", 3: "lz4", 4: "lz4hc", 5: "zstd", 6: "unknown6", -1: "unknown-1"}
INT_MAX = 2147483647


def build(tier, seed):
    qs = []
    common = dict(harness="c15_compress.c", units=UNITS, native_units=NATIVE_UNITS, native_libs=NLIBS,
                  unwind=6, unwindset={"_mtbl_decompress_zlib.0": 3}, timeout=900, mem_gb=10, leak_check=True)
    for alg, name in ALGS.items():
        for use_level in (1, 0):
            # data mode: every content of every length 0..4, every int level
            qs.append(Query("rt_%s_%s_data" % (name, "level" if use_level else "default"), entry="h_roundtrip",
                            defines={"ALG": "(%d)" % alg, "NMAX": 4, "USE_LEVEL": use_level},
                            sample={"alg": name, "api": "mtbl_compress_level" if use_level else "mtbl_compress",
                                    "n": "0..4, all contents", "level": "all int" if use_level else "default"}, **common))
            # sizing mode: every input size up to 256 MiB; payload not copied beyond 4 bytes
            qs.append(Query("rt_%s_%s_sizing" % (name, "level" if use_level else "default"), entry="h_roundtrip",
                            defines={"ALG": "(%d)" % alg, "NMAX": "%dUL" % (1 << 28), "USE_LEVEL": use_level},
                            sample={"alg": name, "api": "mtbl_compress_level" if use_level else "mtbl_compress",
                                    "n": "0..2^28 (sizes/overflow arithmetic; payload compared for n<=4)",
                                    "level": "all int" if use_level else "default"}, **common))
        # sizes around INT_MAX: definite result, no abort, no undefined arithmetic
        qs.append(Query("rt_%s_edge" % name, entry="h_roundtrip",
                        defines={"ALG": "(%d)" % alg, "NMIN": "%dUL" % (INT_MAX - 8), "NMAX": "%dUL" % (INT_MAX + 16),
                                 "USE_LEVEL": 1, "EDGE_ONLY": None},
                        sample={"alg": name, "n": "INT_MAX-8..INT_MAX+16", "claim": "no abort / no UB / definite result only"}, **common))
    for tmax in ([2500] if tier == "quick" else [1000, 2500, 4500]):
        c = dict(common)
        c["unwindset"] = {"_mtbl_decompress_zlib.0": 5}
        qs.append(Query("zlib_grow_%d" % tmax, entry="h_zlib_grow", defines={"TOTAL_MAX": tmax},
                        sample={"decompressed_size": "0..%d from a 5..8 byte image" % tmax}, **c))
    c = dict(common)
    c["unwind"] = 10
    qs.append(Query("names", entry="h_names", sample={"strings": "all <=6 char strings, all enum values, all letter cases"}, **c))
    meta = {
        "functions": ["mtbl_compress", "mtbl_compress_level", "mtbl_decompress", "_mtbl_compress_lz4", "_mtbl_compress_lz4hc",
                      "_mtbl_compress_zstd", "_mtbl_compress_snappy", "_mtbl_compress_zlib", "_mtbl_decompress_lz4",
                      "_mtbl_decompress_zstd", "_mtbl_decompress_snappy", "_mtbl_decompress_zlib",
                      "mtbl_compression_type_to_str", "mtbl_compression_type_from_str"],
        "units": ["mtbl/compression.c", "mtbl/fixed.c"],
        "bounds": "input size symbolic 0..2^28 (256 MiB) for all sizing/overflow arithmetic with the round-trip requirement, and INT_MAX-8..INT_MAX+16 for no-abort/no-UB only; payload bytes compared for sizes 0..4 (all contents); level over all int; algorithm over 0..5 plus two out-of-range values; zlib grow loop up to 4500 decompressed bytes (<= 3 reallocations)",
        "outside": "inputs between 256 MiB and INT_MAX (solver observations there, not replayed because they need gigabytes of incompressible data: (a) zlib images >= 1 GiB make 4*input_size exceed the 32-bit avail_out in _mtbl_decompress_zlib and the grow loop then leaves a gap in the output; (b) an incompressible input within ~0.4% of INT_MAX compresses to an image > INT_MAX which mtbl_decompress refuses -- needs 2 GiB of incompressible data, not replayed, see DESIGN.md); the behaviour of the real libraries beyond their documented bounds/return codes (their code is not in the repository); inputs >= 4 GiB; payload comparison beyond 4 bytes (the glue never looks at payload bytes)",
        "stubs": ["LZ4_compressBound/compress_default/compress_HC/decompress_safe", "ZSTD_compressBound/compress/isError/getFrameContentSize/decompress/minCLevel/maxCLevel",
                  "snappy_max_compressed_length/compress/uncompressed_length/uncompress", "deflateInit_/deflateBound/deflate/deflateEnd/inflateInit_/inflate/inflateEnd",
                  "contract: a compressor produces ANY size c in [n+5, bound(n)] and succeeds iff the destination holds c bytes; stored image is a tagged copy"],
        "assumptions": ["library contracts as quoted in stubs/codecs_stub.c; replays of counterexamples run against the real libraries",
                        "allocation does not fail (my_alloc.h asserts on it)"],
        "exhaustive": True,
    }
    return qs, meta
