"""C06: sorter output is the sorted, merged input regardless of chunking."""
import sortercommon as sc


def build(tier, seed):
    qs = []
    quick = tier == "quick"
    A, B, C, E = b"a", b"b", b"c", b""
    inputs = [[B, A, B], [A, A, A], [C, B, A], [A, B, C], [B, E, B, A], []]
    if not quick:
        inputs += [[A, B, A, B], [B, B, A, A], [E, E], [C, A, C, B], [A], [B, A, C, A]]
    # entry costs 8+kl+1 bytes + 8 per pointer: 18 per 1-byte-key entry -> chunk capacities 1, 2, 3, all
    for i, keys in enumerate(inputs):
        for mm in ((18, 40, 1000) if quick else (18, 36, 40, 54, 60, 1000)):
            qs.append(sc.sq("sort_i%d_m%d" % (i, mm), keys, maxmem=mm, pool=0, witness=(i == 0 and mm == 40)))
            if mm == 1000:
                continue
            for deliver in ((1, 2) if quick else (0, 1, 2)):
                qs.append(sc.sq("sort_i%d_m%d_pool_d%d" % (i, mm, deliver), keys, maxmem=mm, pool=1, deliver=deliver))
    # solver-chosen delivery point per job on a small input
    for _ in ():
        for __ in ():
            for ___ in ():
                pass
    qs.append(sc.sq("tmpdir_trailing_slash", [B, A, B], maxmem=18, slash=1))
    # an EMPTY merge result is a legal value, not a failed merge: duplicates inside one chunk and across chunks
    qs.append(sc.sq("empty_merge_in_chunk", [B, A, B], maxmem=40, mergeempty=1))
    qs.append(sc.sq("empty_merge_across_chunks", [B, A, B], maxmem=18, mergeempty=1))
    qs.append(sc.sq("after_iter", [B, A, B], maxmem=40, scen=2))
    qs.append(sc.sq("after_iter_pool", [B, A, B], maxmem=40, scen=2, pool=1, deliver=2))
    qs.append(sc.sq("options", [A], entry="h_sorter_options", witness=True))
    meta = {
        "functions": sc.FUNCS, "units": ["mtbl/sorter.c"],
        "bounds": "<= 4 adds of keys of 0..1 bytes in any order with duplicates; chunk capacity from one entry per chunk to everything in memory (<= 4 chunks); with and without a pool (every point at which the pool may run a chunk job / deliver its reader); qsort tie order arbitrary; every value byte symbolic",
        "outside": "the cross-chunk merge itself is C04 (the merger is a contract model here: composition); real temp files; more than 4 entries; keys longer than one byte",
        "stubs": sc.STUBS,
        "assumptions": ["the merger, reader and writer meet the contracts checked in C04, C11 and C08/C09"],
        "exhaustive": False,
    }
    return qs, meta
