"""C11: every well-formed MTBL file (independent reference encoder, any legal encoding choice) is readable."""
import itertools
import readercommon as rc

KN = {0: "iter", 1: "get", 2: "prefix", 3: "range"}


def enc(kls, vls, blk, **kw):
    d = dict(kls=kls, vls=vls, blk=blk)
    d.update(kw)
    return d


def build(tier, seed):
    qs = []
    quick = tier == "quick"
    # ---- full iteration through the REAL mtbl_reader_init_fd, all bytes symbolic ----
    base = [
        ("e22", enc([1, 2, 2, 1], [0, 1, 1, 0], [2, 2], sepl=[2, 1])),
        ("e3r", enc([1, 2, 2, 2, 2], [1, 0, 1, 0, 1], [3, 2], rsts=[1, 0, 1, 1, 0], shs=[0, 1, 0, 0, 1], sepl=[2, 2])),
        ("e1n", enc([2, 3, 3], [1, 1, 1], [3], rsts=[1, 0, 0], shs=[0, 2, 1], sepl=[3])),          # non-maximal + maximal sharing
        ("e31", enc([0, 1, 2], [0, 1, 2], [1, 1, 1], sepl=[0, 1, 3], irst=[1, 0, 0])),              # empty key, index with one restart
        ("e00", enc([], [], [], sepl=[], irst=[])),                                                 # empty table
    ]
    variants = []
    for ver in (1, 2):
        for pfx in ((0, 5) if quick else (0, 1, 5, 130)):
            for comp in ((0, 2) if quick else (0, 1, 2, 3, 4, 5)):
                if quick and ver == 1 and pfx == 5 and comp == 2:
                    continue
                variants.append((ver, pfx, comp))
    for tag, spec in base:
        for ver, pfx, comp in variants:
            for verify in ((0,) if (quick and comp) else (0, 1)):
                s = dict(spec, ver=ver, pfx=pfx, comp=comp)
                if not s["kls"]:
                    if comp or pfx == 130:
                        continue
                qs.append(rc.rq("iter_%s_v%d_p%d_c%d_x%d" % (tag, ver, pfx, comp, verify), "h_drain", s, kind=0, verify=verify,
                                witness=(ver == 2 and pfx == 0 and comp == 0 and verify == 0), timeout=900))
    # v1 / v2 files whose index payload exceeds 127 bytes (a fixed32 length must not be read as a varint)
    nblk = 14
    # concrete keys and separators (values stay symbolic): a reader that mis-sizes the index then fails
    # concretely instead of dragging symbolic restart counts through every loop
    bk = [[0x61 + i] for i in range(nblk)]
    big = enc([1] * nblk, [1] * nblk, [1] * nblk, sepl=[6] * nblk, irst=[1] + [0] * (nblk - 1),
              ckeys=bk, cseps=[k + [0, 0, 0, 0, 0] for k in bk])
    for ver in (1, 2):
        q = rc.rq("iter_bigindex_v%d" % ver, "h_drain", dict(big, ver=ver), kind=0, witness=False, timeout=1500)
        q.flags = ["--max-field-sensitivity-array-size", "2048"]
        qs.append(q)
    if quick:
        for ver in (1, 2):
            qs.append(rc.rq("iter_e22_v%d_p130" % ver, "h_drain", dict(base[0][1], ver=ver, pfx=130), kind=0, witness=False))
    # all restart-flag subsets of a 3-entry block (first always set), with maximal sharing where not a restart
    for bits in itertools.product((0, 1), repeat=2):
        rsts = [1] + list(bits)
        shs = [0, 0 if rsts[1] else 1, 0 if rsts[2] else 1]
        for ver in (1, 2):
            qs.append(rc.rq("iter_rst%d%d_v%d" % (bits[0], bits[1], ver), "h_drain",
                            enc([1, 2, 2], [1, 1, 1], [3], rsts=rsts, shs=shs, sepl=[2], ver=ver), kind=0, witness=False))
    # ---- lookups and one seek on non-canonical encodings (white-box reader) ----
    wb = [
        ("w1", enc([1, 2, 2, 1], [0, 1, 1, 0], [2, 2], sepl=[2, 1], ver=1, no_trailer=True)),
        ("wsh", enc([2, 2, 2, 2], [1, 1, 1, 1], [2, 2], rsts=[1, 0, 1, 0], shs=[0, 1, 0, 2], sepl=[2, 2], irst=[1, 0], ver=2, no_trailer=True)),
    ]
    for tag, spec in wb:
        for k in (1, 2, 3):
            qs.append(rc.rq("look_%s_%s" % (tag, KN[k]), "h_history", spec, ops="nn", kind=k, ql=(1 if k == 2 else 2), ql2=2, witness=False))
        qs.append(rc.rq("seek_%s" % tag, "h_history", spec, ops="sn" if quick else "snn", kind=0, t0l=2, witness=False))
        if not quick:
            qs.append(rc.rq("seek1_%s" % tag, "h_history", spec, ops="sn", kind=0, t0l=1, witness=False))
    # restart array location and width for EVERY block size (incl. > 4 GiB): builder trailer vs block_init/get_restart_point
    from vdriver import Query
    for nr in ((2,) if quick else (1, 2, 3)):
        qs.append(Query("estimate_all_sizes_nr%d" % nr, harness="c11_restart64.c", entry="h_estimate_all_sizes", defines={"NR": nr},
                        units=["mtbl/varint.c", "mtbl/fixed.c"], unwind=6, object_bits=8, timeout=900, mem_gb=8, witness=(nr == 2),
                        sample={"symbolic": "entry-area size E in 0..2^36 (bytes never touched: object of symbolic size)", "restarts": nr}))
    qs.append(Query("block_init_consistent", harness="c11_restart64.c", entry="h_block_init_consistent", defines={"NR": 1},
                    units=["mtbl/varint.c", "mtbl/fixed.c"], unwind=6, object_bits=8, timeout=900, mem_gb=8, witness=True,
                    sample={"symbolic": "block size 0..2^36 (not 4..7), restart count (all 2^32), index probed"}))
    meta = {
        "functions": rc.FUNCS + ["block_builder_finish", "block_builder_current_size_estimate", "num_restarts"], "units": ["mtbl/reader.c"] + rc.UNITS,
        "bounds": "files of <= 3 blocks / <= 5 entries, keys <= 2 bytes, values <= 2 bytes; format v1 and v2; foreign prefix 0/1/5/130 bytes (130 forces two-byte varint offsets in the index); every restart-flag subset of a 3-entry block; maximal and non-maximal sharing; index separators anywhere in the legal interval (symbolic); index with and without restarts; compression ids 0..5 through a ghost identity codec; with and without verify_checksums. All key/value/separator/prefix bytes and stored CRC values are solver variables",
        "outside": "64-bit restart arrays are decided at the geometry level only (block_init/get_restart_point for every size up to 2^36 and every count; the builder's size estimate) -- block_builder_finish writing 8-byte slots and whole files above 4 GiB are not executed; multi-byte length varints inside entries (keys/values >= 128 bytes); the real decompressors (C15)",
        "stubs": rc.STUBS,
        "assumptions": ["the reference encoder in harness/ref_encode.h is the format (written from the format description, shares no code with the writer)"],
        "exhaustive": False,
    }
    return qs, meta
