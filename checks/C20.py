"""C20 write(2) fragmentation: _write_all under every outcome sequence (CBMC), plus
a call-graph obligation: write(2) is reached only through _write_all."""
import os
import re
import subprocess
import tempfile
import vdriver
from vdriver import Query


def callgraph_obligation():
    """Regenerate writer.c's goto program and check on its call graph that the only
    caller of write(2) is _write_all (so the byte stream is the concatenation of the
    buffers handed to _write_all, whatever write returns)."""
    os.makedirs(vdriver.WORKROOT, exist_ok=True)
    d = tempfile.mkdtemp(prefix="cg_", dir=vdriver.WORKROOT)
    try:
        gb = os.path.join(d, "w.gb")
        cmd = ["goto-cc", "-c", "-o", gb, "-include", vdriver.config_h(), "-DHAVE_CONFIG_H",
               "-I" + vdriver.REPO, "-I" + os.path.join(vdriver.REPO, "mtbl"),
               os.path.join(vdriver.REPO, "mtbl/writer.c")]
        r = subprocess.run(cmd, capture_output=True, text=True)
        if r.returncode != 0:
            return None, "goto-cc failed: " + r.stderr[-500:]
        r = subprocess.run(["goto-instrument", "--call-graph", gb], capture_output=True, text=True)
        edges = re.findall(r"^(\S+) -> (\S+)$", r.stdout, re.M)
        callers = sorted({a for a, b in edges if b in ("write", "pwrite", "writev", "fwrite", "dprintf")})
        wa_callers = sorted({a for a, b in edges if b == "_write_all"})
        return (callers, wa_callers), None
    finally:
        import shutil
        shutil.rmtree(d, ignore_errors=True)
        try:
            os.rmdir(vdriver.WORKROOT)
        except OSError:
            pass


def build(tier, seed):
    qs = []
    # (buffer bytes, write calls, ghost copy?)  -- the byte-copying ghost file is kept for the
    # small shapes; larger ones identify the appended bytes by address (see harness)
    shapes = [(4, 4, 1), (8, 6, 1), (8, 8, 0)] if tier == "quick" else [(1, 3, 1), (2, 4, 1), (4, 4, 1), (6, 5, 1), (8, 6, 1), (8, 8, 1), (12, 7, 1), (12, 10, 0), (16, 9, 0), (16, 12, 0)]
    for nbuf, b, ghost in shapes:
        d = {"NBUF": nbuf, "BCALLS": b}
        if not ghost:
            d["NO_GHOST"] = None
        qs.append(Query("write_all_n%d_b%d%s" % (nbuf, b, "" if ghost else "_addr"), harness="c20_write_all.c", entry="h_write_all",
                        defines=d, unwind=nbuf + 2,
                        unwindset={"_write_all.0": b + 1}, timeout=600,
                        native_units=vdriver.all_units_except("mtbl/writer.c"), native_libs=vdriver.MTBL_LIBS, mem_gb=8, stop_ok=True,
                        sample={"buffer_bytes": nbuf, "write_calls": b,
                                "outcomes": "each call: EINTR | hard errno | 0 | k in [1,remaining]"}))
    for nbuf, b in ([(4, 9)] if tier == "quick" else [(2, 7), (4, 9), (6, 12)]):
        qs.append(Query("write_block_n%d_b%d" % (nbuf, b), harness="c20_write_all.c", entry="h_write_block", units=["mtbl/varint.c"],
                        defines={"NBUF": nbuf, "BCALLS": b}, unwind=nbuf + 2,
                        unwindset={"_write_all.0": b + 1}, timeout=600,
                        native_units=vdriver.all_units_except("mtbl/writer.c"), native_libs=vdriver.MTBL_LIBS, mem_gb=8, stop_ok=True,
                        sample={"data_bytes": "1..%d" % nbuf, "write_calls_total": b,
                                "outcomes": "each call: EINTR | k in [1,remaining]", "asserts": "returned count == bytes appended == 1+4+len"}))
    meta = {
        "functions": ["_write_all (mtbl/writer.c, static, via #include)", "_mtbl_writer_write_block (mtbl/writer.c, static): reported byte count under fragmentation"],
        "units": ["mtbl/writer.c"],
        "bounds": "buffer <= 16 bytes (all contents, all sizes 1..n), <= 12 write(2) calls per _write_all (so <= 11 consecutive EINTRs); every outcome sequence inside that",
        "outside": "more than BCALLS write calls for one buffer; buffers beyond 12 bytes (the loop body does not depend on the length)",
        "stubs": ["write(2): returns -1/EINTR, -1/any other errno, 0, or any k in [1,n] after copying k bytes to a ghost file"],
        "assumptions": ["a 0 return from write(2) counts as a failure the writer must stop on",
                        "fprintf/strerror of the error message are compiled out (formatting is not the subject)"],
        "exhaustive": True,
    }
    return qs, meta


def run(tier, seed):
    qs, meta = build(tier, seed)
    cg, err = callgraph_obligation()
    pre = []
    ok = cg is not None and cg[0] == ["_write_all"]
    r = {"name": "callgraph_write_only_from_write_all", "entry": "goto-instrument --call-graph", "harness": "mtbl/writer.c",
         "sample": {"callers_of_write": cg[0] if cg else None, "callers_of__write_all": cg[1] if cg else None},
         "verdict": "holds" if ok else "inconclusive", "failed": [], "info": {"vccs": 1}, "wall_s": 0.1,
         "witness": "n/a", "notes": [] if ok else ["write(2) is called from %s (expected only _write_all); C20's composition argument no longer applies: %s" % (cg, err)],
         "backend": "callgraph", "nontrivial": True}
    pre.append(r)
    return vdriver.run_check("C20", tier, qs, meta, pre_results=pre)
