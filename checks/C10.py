"""C10: trailer statistics equal the truth about the file (writer counters vs independent decoder; serialisation)."""
import writercommon as wc
import readercommon as rc
from vdriver import Query


def build(tier, seed):
    qs = []
    quick = tier == "quick"
    shapes_ = wc.standard_shapes(tier, "st")
    if quick:
        shapes_ = [x for i, x in enumerate(shapes_) if i % 3 == seed % 3 or "_t0_" in x[0] or "_tb_" in x[0] or "pfx" in x[0] or "_len128" in x[0]]
    for name, kw in shapes_:
        qs.append(wc.wq(name, witness=("_t0_" in name), **kw))
    # refused adds must not be counted: histories with refusals before / after a block cut, equal keys
    T = dict(kls=[2, 1, 2, 3], lcps=[0, 0, 1, 1], vls=[1, 0, 1, 2])
    for i, perm in enumerate([[1, 0, 2, 2, 3, 1], [0, 0, 1, 3, 2], [3, 0, 1, 2], [0, 2, 1, 3, 3]] if quick else
                             [[1, 0, 2, 2, 3, 1], [0, 0, 1, 3, 2], [3, 0, 1, 2], [0, 2, 1, 3, 3], [2, 1, 0, 3], [0, 1, 2, 3, 0, 1, 2, 3], [1, 1, 1]]):
        for bs in ((36,) if quick else (28, 36, 200)):
            qs.append(wc.wq("st_refuse%d_bs%d" % (i, bs), ri=2, bs=bs, perm=perm, witness=(i == 0), **T))
    qs.append(Query("metadata_roundtrip", harness="c10_metadata.c", entry="h_metadata", units=["mtbl/metadata.c", "mtbl/fixed.c"],
                    unwind=520, timeout=600, sample={"fields": "nine symbolic 64-bit values, symbolic magic"}))
    qs.append(Query("mtbl_info_lines", harness="c10_info.c", entry="h_info", units=["mtbl/metadata.c", "mtbl/fixed.c"], unwind=30,
                    timeout=600, object_bits=12, sample={"fields": "nine symbolic statistics; every integer line of mtbl_info's output compared with its accessor"}))
    qs.append(wc.wq("init_opts", [1], [0], [1], entry="h_init_opts", witness=True,
                    sample={"options": "symbolic block size / restart interval / level / algorithm, given or NULL"}))
    # reader side: accessors on a reference-encoded file (trailer written by the independent encoder)
    for ver in (1, 2):
        qs.append(rc.rq("accessors_v%d" % ver, "h_drain", dict(kls=[1, 2, 2, 1], vls=[0, 1, 1, 0], blk=[2, 2], sepl=[2, 1], ver=ver, pfx=5), kind=0))
    meta = {
        "functions": wc.FUNCS + ["metadata_read", "mtbl_metadata_* accessors", "mtbl_reader_metadata"],
        "units": ["mtbl/writer.c", "mtbl/block_builder.c", "mtbl/reader.c"] + wc.UNITS,
        "bounds": "as C09 (tables <= 6 entries, 0..3 block cuts, prefix 0..17, compression ids 0..5) plus add histories with refused adds (equal keys, out-of-order keys before and after a cut); trailer serialisation with nine fully symbolic 64-bit fields and a symbolic magic",
        "outside": "pooled writers (counters updated from the result-handler thread): C13; mtbl_info's floating-point percentage columns and thousands-separator rendering (the integer argument of every statistics line is checked)",
        "stubs": wc.STUBS,
        "assumptions": ["the harness's own counters (accepted entries, decoded blocks and byte ranges) are the truth about the file"],
        "exhaustive": False,
    }
    return qs, meta
