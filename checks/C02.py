"""C02 lookups on a reader: get / get_prefix / get_range return exactly the matching entries."""
import readercommon as rc
from C03 import T21, T22, TPF, TRS, TLG, TL1, TL2, with_q

KN = {1: "get", 2: "prefix", 3: "range"}
S21 = dict(kls=[1, 1], vls=[1, 1], blk=[1, 1], no_trailer=True)
S12 = dict(kls=[1, 2], vls=[1, 0], blk=[2], sepl=[2], rsts=[1, 0], shs=[0, 1], no_trailer=True)
S22 = dict(kls=[1, 2, 2, 1], vls=[0, 1, 1, 0], blk=[2, 2], sepl=[2, 1], no_trailer=True)
S31 = dict(kls=[1, 1, 2], vls=[0, 0, 0], blk=[1, 1, 1], sepl=[1, 1, 2], no_trailer=True)
S0k = dict(kls=[0, 1, 1], vls=[1, 1, 1], blk=[2, 1], sepl=[1, 1], no_trailer=True)   # empty key stored


def strip(t):
    d = dict(t)
    return d


def build(tier, seed):
    qs = []
    quick = tier == "quick"

    def drain(tag, spec, k, ql, ql2=1, verify=0, witness=False):
        qs.append(rc.rq("drain_%s_%s_q%d_%d%s" % (tag, KN[k], ql, ql2, "_v" if verify else ""), "h_drain", spec,
                        kind=k, ql=ql, ql2=ql2, verify=verify, witness=witness,
                        sample={"query": "all byte strings of length %d%s not beyond the last index key" % (ql, ("/%d" % ql2) if k == 3 else "")}))

    def first(tag, spec, k, ql, ql2=1, n=2):
        qs.append(rc.rq("first%d_%s_%s_q%d_%d" % (n, tag, KN[k], ql, ql2), "h_history", spec, ops="n" * n,
                        kind=k, ql=ql, ql2=ql2, witness=False,
                        sample={"query": "all byte strings of that length; first %d results checked" % n}))

    # symbolic tables, symbolic queries: full result list incl. the sticky failure at the end
    for k in (1, 2, 3):
        drain("S21", S21, k, 1, 1, verify=int(k == 3), witness=True)
    drain("S12", S12, 2, 1)
    drain("S12", S12, 3, 1, 2)
    if quick:
        first("S22", S22, 1, 2, n=2)
        first("S22", S22, 2, 1, n=2)      # prefix shorter than the keys: the first match may sit in the block AFTER the one the index picks
        first("S22", S22, 3, 1, 2, n=2)
        first("S0k", S0k, 2, 0, n=2)
    else:
        for k in (1, 2, 3):
            for ql in (0, 1, 2):
                for ql2 in ((0, 1, 2) if k == 3 else (1,)):
                    drain("S22", S22, k, ql, ql2)
                    drain("S21", S21, k, ql, ql2)
            drain("S31", S31, k, 1, 2)
            drain("S0k", S0k, k, 0, 1)
            drain("S0k", S0k, k, 1, 1)
            drain("S12", S12, k, 2, 2)
    # concrete tables (empty key, prefixes, 0xff, restart runs), symbolic queries
    for tag, spec in (("TPF", TPF), ("TRS", TRS)) if not quick else (("TPF", TPF),):
        for k in (1, 2, 3):
            for ql in ((1,) if quick else (0, 1, 2)):
                if quick:
                    first(tag, spec, k, ql, 2 if k == 3 else 1, n=2)    # full drains of this table: 4-5 min each, thorough
                elif tag == "TRS":
                    first(tag, spec, k, ql, 2 if k == 3 else 1, n=3)    # 6 entries: full drains exceed 14 GB
                else:
                    drain(tag, spec, k, ql, 2 if k == 3 else 1)
    # 130/131-byte keys and a 128-byte symbolic value (two-byte length varints); concrete queries (a symbolic
    # query over 130-byte keys ran out of 14 GB)
    for k in (1, 2, 3):
        for cq, cq2 in ([(b"a", b"b")] if quick else [(b"a", b"b"), (b"ab", b"c"), (b"b", b"d"), (b"", b"a")]):
            qs.append(rc.rq("long_TLG_%s_%s_%s" % (KN[k], cq.hex() or "empty", cq2.hex()), "h_drain", with_q(TLG, cq, cq2), kind=k, witness=False,
                            sample={"query": "concrete %r%s" % (cq, (" .. %r" % cq2) if k == 3 else "")}))
    for tag, spec, cq in (("TL1", TL1, b"kk"), ("TL2", TL2, b"k")):
        for k in ((1, 2) if tag == "TL1" else (2,)):
            qs.append(rc.rq("long_%s_%s" % (tag, KN[k]), "h_drain", with_q(spec, cq, cq), kind=k, witness=(k == 2 and tag == "TL1"),
                            sample={"query": "concrete %r" % cq}))
    # queries beyond the last index key: the constructor returns NULL / an empty iterator
    for k in (1, 2, 3):
        for cq in ([b"z"] if quick else [b"z", b"i", b"h\x00", b"\xff\xff"]):
            spec = with_q(T22, cq, b"zz")
            qs.append(rc.rq("beyond_T22_%s_%s" % (KN[k], cq.hex()), "h_drain", spec, kind=k, witness=False,
                            extra={"NULLCASE": None}, sample={"query": "concrete %r (> every index key)" % cq}))
    meta = {
        "functions": rc.FUNCS, "units": ["mtbl/reader.c"] + rc.UNITS,
        "bounds": "tables of <= 3 blocks / <= 5 entries, keys <= 2 bytes (incl. the empty key), values <= 1 byte, plus one concrete-keyed table with 130/131-byte keys and index keys and a 128-byte symbolic value (concrete queries); query / prefix / range bounds of 0..2 symbolic bytes; for the symbolic tables every key, value and separator byte is a solver variable as well; full result list drained plus two further calls (failure is sticky)",
        "outside": "larger tables, keys or queries > 2 bytes; queries beyond the last index key are checked for concrete queries only (the constructor's give-up path is asserted unreachable for all others); reader struct constructed white-box (init: C19/C11)",
        "stubs": rc.STUBS + ["free() as seen by reader.c: inside a lookup constructor the give-up path is asserted unreachable and cut (query assumed <= last index key)"],
        "assumptions": ["separators lie in the legal interval [last key of block, first key of next block)"],
        "exhaustive": False,
    }
    return qs, meta
