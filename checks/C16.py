"""C16 varint / fixed codecs: full-width solver queries on mtbl/varint.c, mtbl/fixed.c"""
from vdriver import Query

UNITS = ["mtbl/varint.c", "mtbl/fixed.c"]


def build(tier, seed):
    qs = []
    common = dict(harness="c16_codec.c", units=UNITS, unwind=12, timeout=300, mem_gb=6)
    qs.append(Query("enc64", entry="h_enc64", sample={"v": "all 2^64"}, **common))
    qs.append(Query("enc32", entry="h_enc32", sample={"v": "all 2^32"}, **common))
    for t in list(range(0, 10)) + [-1]:
        qs.append(Query("dec64_term%d" % t, entry="h_dec64_arbitrary", defines={"TERM": "(%d)" % t},
                        sample={"terminator_index": t, "bytes": "all"}, **common))
    for t in list(range(0, 5)) + [-1]:
        qs.append(Query("dec32_term%d" % t, entry="h_dec32_arbitrary", defines={"TERM": "(%d)" % t},
                        sample={"terminator_index": t, "bytes": "all"}, **common))
    for ln in range(0, 12):
        qs.append(Query("lenpacked_%d" % ln, entry="h_length_packed", defines={"LEN": ln},
                        sample={"buffer_len": ln, "bytes": "all"}, nontrivial=(ln > 0), **common))
    for off in range(0, 8):
        c = dict(common)
        c["unwind"] = 34
        qs.append(Query("fixed_off%d" % off, entry="h_fixed", defines={"OFF": off},
                        sample={"offset": off, "values": "all 2^32 / 2^64"}, **c))
    meta = {
        "functions": ["mtbl_varint_length", "mtbl_varint_length_packed", "mtbl_varint_encode32",
                      "mtbl_varint_encode64", "_varint_decode", "mtbl_varint_decode32", "mtbl_varint_decode64",
                      "mtbl_fixed_encode32", "mtbl_fixed_encode64", "mtbl_fixed_decode32", "mtbl_fixed_decode64"],
        "units": UNITS,
        "bounds": "none on values: every 64-bit / 32-bit value, every byte string of the stated length; loops <= 10 iterations, proved sufficient by unwinding assertions; offsets 0..7",
        "outside": "nothing value-wise; buffers longer than 11 bytes for length_packed",
        "stubs": [],
        "exhaustive": True,
        "assumptions": ["decode callers supply a terminated varint or at least 10 (5) readable bytes; the buffer is allocated exactly that long, so any over-read is a bounds failure",
                        "host is little-endian x86-64 as compiled by goto-cc (htole32/le32toh identity)"],
    }
    return qs, meta
