"""C01 round trip, decided compositionally (DESIGN.md C01):
  block level   block_builder.c -> block.c on symbolic entries (c01_block.c)
  writer half   writer.c output decodes (independent decoder) to exactly the accepted list, for every
                configuration incl. compression ids/levels through the ghost codec (c_writer.c)
  reader half   reader.c returns exactly what an independent encoder laid out (c_reader.c)
Both halves are judged against the same format description; mtbl_dump's filter/format: c01_dump.c."""
import shapes
import writercommon as wc
import readercommon as rc
from vdriver import Query

BU = ["mtbl/varint.c", "mtbl/fixed.c"]


def bq(name, entry, kls, vls, ri, bufcap=64, p=None, tl=None, extra=None, timeout=1500, witness=False, unwind=None):
    d = {"N": len(kls), "KLS": shapes.clist(kls), "VLS": shapes.clist(vls), "RI": ri, "BUFCAP": bufcap,
         "KLMAX": max([4] + kls), "VLMAX": max([4] + vls)}
    if p is not None:
        d["P"] = p
    if tl is not None:
        d["TL"] = tl
    if extra:
        d.update(extra)
    n = len(kls)
    us = {"ubuf_reserve.0": 1 if bufcap >= 64 and not unwind else 6}
    if unwind:      # long shapes: the loops over entries/restarts keep their small bounds, the block must constant-fold
        us.update({"parse_next_key.0": n + 2, "build_block.0": n + 2, "h_block_roundtrip.0": n + 2, "_varint_decode.0": 6})
    return Query(name, harness="c01_block.c", entry=entry, defines=d, units=BU, unwind=unwind or max(8, n + 3), unwindset=us,
                 flags=(["--max-field-sensitivity-array-size", str(bufcap + 8)] if bufcap > 64 else []),
                 object_bits=12, timeout=timeout, mem_gb=10, witness=witness, leak_check=True,
                 sample={"entries": n, "key_lens": kls, "val_lens": vls, "restart_interval": ri, "builder_buffer": bufcap,
                         "content": "all key/value bytes symbolic, keys strictly increasing"})


def build(tier, seed):
    qs = []
    quick = tier == "quick"
    # ---- block level: symbolic keys (prefix sharing decided by the solver) ----
    blocks = [([1, 2, 2], [0, 1, 1], 1, 8), ([1, 2, 2], [0, 1, 1], 2, 64), ([0, 1, 1, 2], [1, 0, 2, 1], 1, 8),
              ([2, 2, 2], [1, 1, 1], 3, 64)]
    if not quick:
        blocks += [([1, 1, 2, 2], [0, 1, 1, 0], 2, 128), ([3, 3], [2, 2], 2, 64), ([0, 3, 3, 3], [0, 0, 0, 0], 4, 128),
                   ([1, 2, 3], [2, 1, 0], 1, 4), ([2, 2, 2, 2], [0, 0, 0, 0], 1, 16)]
    for i, (kls, vls, ri, cap) in enumerate(blocks):
        qs.append(bq("block_rt_%d_ri%d_cap%d" % (i, ri, cap), "h_block_roundtrip", kls, vls, ri, cap, witness=(i == 0)))
    # lengths whose varints take two bytes (block.c's slow decode path, the builder's varint encode): templated
    # keys (order and shared-prefix lengths are the shape, every byte no comparison decides on is symbolic)
    # (single-entry shapes first: a mis-decoded length there fails at once instead of sending symex through garbage)
    longs = [([2], [0], [128], 1), ([128], [0], [1], 1), ([1], [0], [127], 1), ([2], [0], [200], 1), ([200], [0], [1], 1),
             ([1, 129], [0, 1], [128, 0], 2), ([130, 132], [0, 129], [0, 200], 2), ([130, 131], [0, 128], [0, 0], 2)]
    if not quick:
        longs += [([130, 131], [0, 127], [127, 129], 2), ([128, 2, 131], [0, 1, 1], [1, 129, 0], 16), ([2, 130], [0, 2], [1, 127], 2),
                  ([130, 131], [0, 127], [0, 200], 1), ([130, 130], [0, 129], [0, 200], 1), ([200, 255], [0, 192], [1, 0], 2), ([2], [0], [255], 1), ([2], [0], [256], 1), ([2], [0], [383], 1)]
    # not finished (SAT reduction beyond 10 GB): long-entry blocks of more than 512 bytes, e.g. keys 130/130 with values 127/129 at interval 1
    for i, (kls, lcps, vls, ri) in enumerate(longs):
        qs.append(bq("block_rt_long%d_ri%d" % (i, ri), "h_block_roundtrip", kls, vls, ri, 1024, witness=(i == 5), unwind=max(kls + vls) + 4,
                     extra={"KT": shapes.cbytes2(shapes.key_templates(kls, lcps), max(kls))}))
    # decode_entry() alone: every triple of 32-bit lengths (the shapes above probe chosen lengths only)
    qs.append(Query("decode_entry_all_lengths", harness="c01_block.c", entry="h_decode_entry", defines={"N": 1, "KLS": "{1}", "VLS": "{1}", "RI": 1, "BUFCAP": 64, "KLMAX": 4, "VLMAX": 4},
                    units=BU, unwind=17, object_bits=8, timeout=900, mem_gb=8, witness=True,
                    sample={"symbolic": "shared, non_shared, value_length: all 2^96 triples; 0..2 spare bytes after the entry", "reference": "LEB128 encoder in the harness"}))
    # (block_builder_add() with symbolic LENGTHS -- memcpy of a solver-chosen size into the builder's buffer -- ran out of
    #  12 GB within a minute even for lengths <= 20/140; the writer side keeps enumerated lengths)
    qs.append(bq("builder_init", "h_builder_init", [1], [1], 1, witness=True))
    # ---- writer half: every configuration axis, decoded independently ----
    shp = wc.standard_shapes(tier, "rt")
    if quick:
        shp = [x for i, x in enumerate(shp) if i % 3 == (seed + 1) % 3 or "_c" in x[0] or "pfx" in x[0] or "_len" in x[0]]
    for name, kw in shp:
        qs.append(wc.wq(name, witness=False, **kw))
    # ---- reader half: files laid out by the independent encoder ----
    for ver in (1, 2):
        for comp in ((0, 5) if quick else (0, 1, 2, 3, 4, 5)):
            qs.append(rc.rq("read_v%d_c%d" % (ver, comp), "h_drain",
                            dict(kls=[1, 2, 2, 1], vls=[0, 1, 1, 0], blk=[2, 2], sepl=[2, 1], ver=ver, comp=comp, pfx=(5 if comp else 0)),
                            kind=0, verify=(comp == 0), witness=(ver == 2 and comp == 0)))
    # long keys/values through the real open path (trailer, index, both format versions)
    lk = [b"a", b"a" + b"b" * 129, b"c" * 131]
    for ver in (1, 2):
        qs.append(rc.rq("read_long_v%d" % ver, "h_drain",
                        dict(kls=[1, 130, 131], vls=[128, 0, 2], blk=[2, 1], rsts=[1, 0, 1], shs=[0, 1, 0], sepl=[130, 131],
                             ckeys=[list(k) for k in lk], cseps=[list(lk[1]), list(lk[2])], ver=ver), kind=0, verify=1, witness=(ver == 2)))
    qs.append(rc.rq("read_long_single_val128", "h_drain", dict(kls=[2], vls=[128], blk=[1], sepl=[2], ckeys=[list(b"kk")], cseps=[list(b"kk")], ver=2), kind=0, verify=1, witness=False))
    qs.append(rc.rq("read_long_single_key128", "h_drain", dict(kls=[128], vls=[1], blk=[1], sepl=[128], ckeys=[list(b"k" * 128)], cseps=[list(b"k" * 128)], ver=2), kind=0, verify=1, witness=False))
    # ---- mtbl_dump: -x output is exactly the matching subsequence; -s prints nothing ----
    dumps = [([1, 2], [1, 0]), ([0, 1, 2], [1, 2, 1]), ([2, 2, 2], [0, 1, 2])]
    for i, (kls, vls) in enumerate(dumps if not quick else dumps[:2]):
        for kpl in (-1, 0, 1, 2):
            for vpl in ((-1, 1) if quick else (-1, 0, 1, 2)):
                for silent in ((0,) if (kpl, vpl) != (1, -1) else (0, 1)):
                    d = {"N": len(kls), "KLS": shapes.clist(kls), "VLS": shapes.clist(vls), "KPL": "(%d)" % kpl, "VPL": "(%d)" % vpl, "SILENT": silent}
                    qs.append(Query("dump_%d_k%d_v%d_s%d" % (i, kpl, vpl, silent), harness="c01_dump.c", entry="h_dump", defines=d,
                                    unwind=8, unwindset={"h_dump.1": 100, "memcmp.0": 6}, object_bits=12, timeout=600, mem_gb=8,
                                    witness=(i == 0 and kpl == 1 and vpl == -1 and not silent),
                                    sample={"entries": len(kls), "key_prefix_len": kpl, "val_prefix_len": vpl, "silent": silent,
                                            "symbolic": "all key/value/prefix bytes, -K/-V minimum lengths 0..3"}))
    qs.append(rc.rq("read_3blk", "h_drain", dict(kls=[0, 1, 2, 2, 2], vls=[0, 1, 2, 0, 1], blk=[1, 2, 2], rsts=[1, 1, 0, 1, 0],
                                                 shs=[0, 0, 1, 0, 1], sepl=[0, 2, 2], irst=[1, 0, 1]), kind=0))
    meta = {
        "functions": wc.FUNCS + rc.FUNCS + ["block_iter_seek_to_last", "block_iter_prev"],
        "units": ["mtbl/writer.c", "mtbl/block_builder.c", "mtbl/block.c", "mtbl/reader.c"] + wc.UNITS,
        "bounds": "decode_entry(): every triple of 32-bit lengths against a reference LEB128 header; block level: <= 4 entries, keys <= 3 bytes (all bytes symbolic), restart interval 1..4, builder buffer growth from 4/8/16 bytes; plus <= 3 entries with key/value/shared-prefix lengths 127..131 and 200 (two-byte length varints; templated keys: bytes that decide order or are shared are fixed, the rest and all value bytes symbolic); file level: writer shapes as C09 (incl. compression ids 1..5, default and explicit levels, foreign prefix), reader shapes as C11; every value byte and every key byte not deciding order symbolic (block level: all key bytes symbolic)",
        "outside": "mtbl_dump: main()'s getopt/hex_decode parsing and the non-hex (escaped string) output mode; writer and reader are not run in ONE query on the same bytes: the writer's file is judged by an independent decoder and the reader by an independent encoder of the same format description (DESIGN.md C01 split); real codecs in the loop (C15); keys/values >= 128 bytes beyond the listed 127..131/200-byte shapes (block level, writer side, one reader-side file per format version); thread pool (C13)",
        "stubs": wc.STUBS + rc.STUBS,
        "assumptions": ["decoder (c_writer.c) and encoder (ref_encode.h) describe the same format"],
        "exhaustive": False,
    }
    return qs, meta
