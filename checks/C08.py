"""C08: the writer's ordering gate and exclusive create."""
import writercommon as wc
from vdriver import Query


def build(tier, seed):
    qs = []
    quick = tier == "quick"
    T4 = dict(kls=[2, 1, 2, 3], lcps=[0, 0, 1, 1], vls=[1, 0, 1, 2])
    T5 = dict(kls=[2, 3, 2, 3, 1], lcps=[0, 2, 1, 2, 0], vls=[1, 1, 1, 1, 1])     # "ab" < "ab?" < "ad" < "ad?" < "c": extensions / prefixes
    THI = dict(kls=[1, 2, 2], lcps=[0, 1, 1], vls=[1, 1, 1])
    perms4 = [[1, 0, 2, 2, 3, 1], [0, 0, 1, 3, 2], [3, 0, 1, 2], [0, 2, 1, 3, 3], [2, 1, 0, 3]]
    perms5 = [[0, 2, 1, 3, 4], [0, 1, 3, 2, 4, 4], [1, 0, 3, 2, 4], [0, 4, 1, 2, 3]]
    if not quick:
        perms4 += [[0, 1, 2, 3, 0, 1, 2, 3], [1, 1, 1], [3, 2, 1, 0], [0, 3, 1, 2, 3]]
        perms5 += [[4, 3, 2, 1, 0], [0, 2, 4, 1, 3], [2, 2, 3, 3, 4, 0]]
    # histories with refusals; block sizes chosen so that refusals fall right before / right after a cut
    for i, perm in enumerate(perms4):
        for bs in ((30, 44) if quick else (26, 30, 36, 44, 200)):
            for ri in ((2,) if quick else (1, 2, 16)):
                qs.append(wc.wq("gate_t4_p%d_bs%d_ri%d" % (i, bs, ri), ri=ri, bs=bs, perm=perm, witness=(i == 0 and bs == 30), **T4))
    for i, perm in enumerate(perms5):
        for bs in ((34,) if quick else (28, 34, 40, 200)):
            qs.append(wc.wq("gate_t5_p%d_bs%d" % (i, bs), ri=2, bs=bs, perm=perm, witness=False, **T5))
    # an entry at least as large as the block size, followed by keys that are not greater
    TB = dict(kls=[1, 1, 1], lcps=[0, 0, 0], vls=[1, 30, 1])
    for i, perm in enumerate([[0, 1, 1, 2], [0, 1, 0, 2], [1, 1, 2], [1, 0, 2, 2]]):
        for bs in ((28,) if quick else (24, 28, 31, 32, 48)):
            qs.append(wc.wq("gate_big_p%d_bs%d" % (i, bs), ri=2, bs=bs, perm=perm, witness=False, **TB))
    # bytes >= 0x80: unsigned comparison
    qs.append(wc.wq("gate_hi", ri=2, bs=30, perm=[0, 2, 1, 2], base=0xf6, witness=False, **THI))
    qs.append(wc.wq("gate_lohi", ri=2, bs=30, perm=[1, 0, 2], special={(0, 0): 0x7f, (1, 0): 0x80, (2, 0): 0xff},
                    kls=[1, 1, 1], lcps=[0, 0, 0], vls=[1, 1, 1], witness=False))
    # the gate for ARBITRARY keys: one step from a valid pre-state (no cut in the step)
    # tight per-loop bounds: after the arbitrary add the writer state is symbolic and every loop
    # left at the global bound would be unwound 66 times
    US = {"ubuf_reserve.0": 1, "memcmp.0": 5, "block_builder_add.0": 5, "bytes_shortest_separator.0": 5,
          "block_builder_finish.0": 4, "mtbl_varint_encode64.0": 3, "_write_all.0": 3, "uint64_vec_add.0": 2}
    pre = [("p0", dict(kls=[], lcps=[], vls=[])),
           ("p1", dict(kls=[2], lcps=[0], vls=[1])),
           ("p2", dict(kls=[2, 1], lcps=[0, 0], vls=[1, 1])),
           ("p3", dict(kls=[1, 2, 3], lcps=[0, 1, 2], vls=[0, 0, 0]))]
    pe = ("pe", dict(kls=[0], lcps=[0], vls=[1]))       # the EMPTY key is the last accepted key
    steps = [(tag, t, akl) for tag, t in (pre[:3] if quick else pre) for akl in ((1, 2) if quick else (0, 1, 2, 3))]
    steps += [(pre[0][0], pre[0][1], 0)] if quick else []
    steps += [(pe[0], pe[1], akl) for akl in ((0, 1) if quick else (0, 1, 2))]
    for tag, t, akl in steps:
        if True:
            qs.append(wc.wq("step_%s_k%d" % (tag, akl), ri=2, bs=200, entry="h_gate_step", extra={"AKL": akl, "AVL": 1},
                            us=US, witness=(akl == 1), timeout=1500, mem_gb=14,
                            sample={"last_add": "key of %d symbolic bytes, any order relation to the last accepted key" % akl}, **t))
    qs.append(wc.wq("init_excl", [1], [0], [1], entry="h_init_excl", witness=True, sample={"open": "fails (path exists) or succeeds"}))
    meta = {
        "functions": wc.FUNCS, "units": ["mtbl/writer.c", "mtbl/block_builder.c"] + wc.UNITS,
        "bounds": "add histories of <= 8 calls over <= 5 distinct keys (<= 3 bytes) in any order incl. repeats, with refusals before and after block cuts, decoded by the independent decoder; plus the gate for a completely arbitrary key (0..3 symbolic bytes) as one step from four pre-states; open(2) flags of mtbl_writer_init",
        "outside": "arbitrary-key steps that also cut a block (the separator then has a symbolic length: no verdict in 16 GB) -- cuts with refusals are covered by the templated histories; pre-existing target files are modelled by open(2) failing with O_EXCL semantics",
        "stubs": wc.STUBS,
        "assumptions": [],
        "exhaustive": False,
    }
    return qs, meta
