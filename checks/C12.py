"""C12 checksums: intact files verify; a block whose checksum does not match is never accepted."""
import readercommon as rc
import shapes
from vdriver import Query

SP = dict(kls=[1, 2, 2, 1], vls=[0, 1, 1, 0], blk=[2, 2], sepl=[2, 1])
S3 = dict(kls=[1, 1, 1], vls=[1, 1, 1], blk=[1, 1, 1], sepl=[1, 1, 1])


def vq(name, spec, damage=None, witness=False):
    d = shapes.reader_defines(**spec)
    d["VERIFY"] = 1
    if damage is not None:
        d["DAMAGE_BLOCK"] = damage
    us = {"_varint_decode.0": 3, "memcmp.0": 4, "ubuf_reserve.0": 1, "ubuf_reserve$link1.0": 1}
    return Query(name, harness="c12_verify.c", entry="h_verify", defines=d,
                 units=["mtbl/block.c", "mtbl/metadata.c", "mtbl/varint.c", "mtbl/fixed.c", "mtbl/iter.c", "mtbl/source.c"],
                 unwind=12, unwindset=us, flags=["--max-field-sensitivity-array-size", "1024"], object_bits=12,
                 timeout=900, mem_gb=10, witness=witness,
                 sample={"file": spec, "damaged_block": damage, "tool": "verify_file() from src/mtbl_verify.c"})


def build(tier, seed):
    qs = []
    quick = tier == "quick"
    # (i)/(ii) reader with verify_checksums: intact files read completely, every block's CRC compared
    for ver in (1, 2):
        qs.append(rc.rq("intact_iter_v%d" % ver, "h_drain", dict(SP, ver=ver), kind=0, verify=1, witness=(ver == 2)))
    qs.append(rc.rq("intact_iter_3blk", "h_drain", dict(S3, pfx=5), kind=0, verify=1))
    qs.append(rc.rq("intact_get", "h_history", dict(SP, no_trailer=True), ops="nn", kind=1, ql=2, verify=1))
    qs.append(rc.rq("intact_seek", "h_history", dict(SP, no_trailer=True), ops="sn", kind=0, t0l=1, verify=1))
    # damaged data block k / index block: no entry of that block is ever returned (the process stops)
    for blk in (0, 1):
        qs.append(rc.rq("damaged_blk%d_iter" % blk, "h_drain", dict(SP), kind=0, verify=1, extra={"DAMAGE_BLOCK": blk}, witness=False))
        qs.append(rc.rq("damaged_blk%d_get" % blk, "h_history", dict(SP, no_trailer=True), ops="nn", kind=1, ql=2, verify=1,
                        extra={"DAMAGE_BLOCK": blk}, witness=False))
        qs.append(rc.rq("damaged_blk%d_seek" % blk, "h_history", dict(SP, no_trailer=True), ops="snn", kind=0, t0l=1, verify=1,
                        extra={"DAMAGE_BLOCK": blk}, witness=False))
    qs.append(rc.rq("damaged_last_of3", "h_drain", dict(S3), kind=0, verify=1, extra={"DAMAGE_BLOCK": 2}, witness=False))
    for ver in (1, 2):
        qs.append(rc.rq("damaged_index_v%d" % ver, "h_drain", dict(SP, ver=ver), kind=0, verify=1, extra={"DAMAGE_BLOCK": 2}, witness=False))
    # (iii) mtbl_verify
    for ver in (1, 2):
        qs.append(vq("verify_intact_v%d" % ver, dict(SP, ver=ver, pfx=(5 if ver == 2 else 0)), witness=True))
        for dmg in (0, 1, 2):
            qs.append(vq("verify_damaged%d_v%d" % (dmg, ver), dict(SP, ver=ver), damage=dmg))
    qs.append(vq("verify_intact_3blk", dict(S3), witness=False))
    qs.append(vq("verify_damaged_last_of3", dict(S3), damage=2))
    qs.append(vq("verify_empty_table", dict(kls=[], vls=[], blk=[], sepl=[], irst=[]), witness=False))
    # (iv) CRC-32C detection on the real implementations
    for impl, be in ((1, "minisat"), (0, "z3")):
        for L in ((0, 1, 2) if quick else (0, 1, 2, 3, 4)):
            if impl == 0 and L > 1:
                continue    # slicing tables: z3 decides L<=1 in seconds; L=2 gave no verdict in 25 min on z3
            for pat in (0, 1):
                if pat == 0 and L > 3:
                    continue    # 1..3 flips anywhere in 8 payload+checksum bytes: no verdict in 25 min
                qs.append(Query("detect_%s_L%d_%s" % ("sse42" if impl else "slicing", L, "flips" if pat == 0 else "burst"),
                                harness="c12_crcdetect.c", entry="h_detect", defines={"IMPL": impl, "L": L, "PATTERN": pat},
                                units=["libmy/crc32c-slicing.c"], unwind=12, backend=be, timeout=1500, mem_gb=10, witness=(L == 1 and pat == 0),
                                sample={"payload_bytes": L, "payload": "all contents", "error": "1..3 flipped bits anywhere in payload+checksum" if pat == 0 else "any burst within 32 consecutive bits"}))
    meta = {
        "functions": rc.FUNCS + ["verify_file", "verify_data_blocks (src/mtbl_verify.c)", "my_crc32c_sse42", "my_crc32c_slicing"],
        "units": ["mtbl/reader.c", "src/mtbl_verify.c", "libmy/crc32c-sse42.c", "libmy/crc32c-slicing.c"] + rc.UNITS,
        "bounds": "files of <= 3 blocks (v1, v2, foreign prefix); damage modelled as 'recomputed CRC != stored CRC' for one chosen block (data, last, index), i.e. every alteration the CRC detects; reads by iteration, get and seek; mtbl_verify's verify_file on the same files; CRC-32C detection of 1..3 bit flips and bursts <= 32 bits decided on the real SSE4.2 implementation for payloads <= 3 bytes (bursts: <= 4 bytes) and on the slicing implementation for payloads <= 1 byte (all contents, all positions in payload+checksum)",
        "outside": "the detection guarantee for longer blocks rests on the Hamming-distance / burst properties of the Castagnoli polynomial (cited mathematics) together with C17 (implementation = standard CRC-32C); that the writer stores crc(stored bytes) is asserted in the C09/C01 writer queries",
        "stubs": rc.STUBS + ["mtbl_verify.c: printf/fprintf/fputs/fflush compiled out, isatty nondeterministic, open/mmap/munmap ghost file"],
        "assumptions": ["a detected corruption is one for which the recomputed CRC differs from the stored field"],
        "exhaustive": False,
    }
    return qs, meta
