"""Query builder for harness/c_merger.c"""
from vdriver import Query

UNITS = ["libmy/heap.c"]
FUNCS = ["mtbl_merger_init/destroy/add_source/source", "merger_iter", "merger_get", "merger_get_prefix", "merger_get_range",
         "merger_iter_init", "merger_iter_add_entry", "entry_fill", "merger_iter_next", "merger_iter_seek", "merger_iter_free",
         "_mtbl_merger_compare", "heap_init/destroy/push/pop/replace/peek/add/heapify/clip (siftup, siftdown)",
         "mtbl_iter_init/next/seek/destroy", "mtbl_source_init/iter/get/get_prefix/get_range/destroy", "bytes_compare"]
STUBS = ["input sources: harness array sources meeting the reader's lookup/seek contract (C02/C03), one reused buffer per iterator, poisoned when exhausted/sought",
         "the six API names merger.c calls on its inputs are renamed to the array-source functions for the #include of merger.c (direct calls)",
         "user merge function: byte sum with call counter (optionally failing on its k-th call); dupsort: order by value byte"]


def ck(keys):
    rows = []
    for k in keys:
        k = list(k)
        rows.append("{%d,%s}" % (len(k), ",".join(str(x) for x in (k + [0, 0])[:2])))
    return "{" + ",".join(rows) + "}"


def mq(name, sources, mode=0, ops="nnnnn", kind=0, cq=b"", cq2=b"", ctgt=(), failat=1, cvals=None, witness=False, timeout=600):
    """sources: list of lists of keys (bytes), each list sorted"""
    keys = [k for s in sources for k in s]
    for s in sources:
        assert all(s[i] < s[i + 1] for i in range(len(s) - 1)), "source keys must be strictly increasing"
    d = {"NS": len(sources), "CNT": "{" + ",".join(str(len(s)) for s in sources) + "}" if sources else "{0}",
         "NE": len(keys), "SKEYS": ck(keys) if keys else "{{0,0,0}}", "MODE": mode, "OPS": '"%s"' % ops, "KIND": kind,
         "CQ": "{%s}" % ",".join(str(x) for x in (list(cq) + [0, 0])[:2]), "CQ2": "{%s}" % ",".join(str(x) for x in (list(cq2) + [0, 0])[:2]),
         "QL": len(cq), "QL2": len(cq2), "FAILAT": failat,
         "CTGT": ck(ctgt) if ctgt else "{{0,0,0}}"}
    if cvals is not None:
        d["CVALS"] = "{" + ",".join(str(v) for v in cvals) + "}"
    smp = {"sources": [[k.decode("latin1") for k in s] for s in sources],
           "mode": ["merge=byte sum", "no merge function", "no merge + dupsort", "merge fails on call %d" % failat][mode],
           "iterator": ["iter", "get", "get_prefix", "get_range"][kind], "query": [cq.decode("latin1"), cq2.decode("latin1")],
           "history": ops, "seek_targets": [t.decode("latin1") for t in ctgt],
           "values": "symbolic (one byte per entry)" if cvals is None else cvals}
    return Query(name, harness="c_merger.c", entry="h_merge", defines=d, units=UNITS, unwind=max(10, len(keys) + 4),
                 flags=["--max-field-sensitivity-array-size", "1024"], object_bits=12, timeout=timeout, mem_gb=8,
                 sample=smp, leak_check=True, witness=witness)
