"""C09: files the writer produces are well-formed MTBL v2 as judged by an independent decoder.
(The same runs decide C01's writer half, C08's 'file holds exactly the accepted entries' and C10's
statistics: the decoder harness asserts all of them; each property's check selects its shapes.)"""
import writercommon as wc


def build(tier, seed):
    qs = []
    for name, kw in wc.standard_shapes(tier, "wf"):
        qs.append(wc.wq(name, witness=("_t4_ri2_bs40" in name or "_t0_" in name), **kw))
    # separator function alone: every start < limit, all byte values, lengths 0..4 (5 in the thorough tier)
    from vdriver import Query
    lmax = 4 if tier == "quick" else 5
    for sl in range(0, lmax + 1):
        for ll in range(0, lmax + 1):
            if ll == 0:
                continue    # nothing sorts below the empty limit
            qs.append(Query("separator_s%d_l%d" % (sl, ll), harness="c09_separator.c", entry="h_separator", defines={"SL": sl, "LL": ll},
                            unwind=lmax + 4, unwindset={"ubuf_reserve.0": 2}, timeout=600, mem_gb=8, witness=(sl == 2 and ll == 2),
                            sample={"start_len": sl, "limit_len": ll, "bytes": "all"}))
    # the 16-bit carry branch of the separator inside a real cut: last key k 02 ff .., next key k 03 00 ..
    qs.append(wc.wq("wf_sep_carry", [4, 4, 1], [0, 1, 0], [1, 1, 1], ri=2, bs=30, witness=False,
                    special={(0, 1): 0x02, (0, 2): 0xff, (1, 1): 0x03, (1, 2): 0x00}))
    meta = {
        "functions": wc.FUNCS, "units": ["mtbl/writer.c", "mtbl/block_builder.c"] + wc.UNITS,
        "bounds": "tables of <= 6 entries, keys <= 3 bytes (incl. empty key), values <= 30 bytes, restart interval 1..16, block size 24..200 (0..3 block cuts), foreign prefix 0..17 bytes, compression ids 0..5 with default / explicit level through a ghost identity codec; for each shape every value byte, every key byte that does not decide the order of two adjacent keys, and every CRC value is a solver variable",
        "outside": "keys whose order is decided by symbolic bytes (the accept/refuse and prefix-sharing decisions then make the file layout symbolic: no verdict within 16 GB); keys/values >= 128 bytes (multi-byte length varints in entries); blocks > 4 GiB (64-bit restart arrays); real compressors (C15) and real CRC values (C17)",
        "stubs": wc.STUBS,
        "assumptions": ["the independent decoder in harness/c_writer.c is the format (written from the format description)"],
        "exhaustive": False,
    }
    return qs, meta
