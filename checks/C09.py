"""C09: files the writer produces are well-formed MTBL v2 as judged by an independent decoder.
(The same runs decide C01's writer half, C08's 'file holds exactly the accepted entries' and C10's
statistics: the decoder harness asserts all of them; each property's check selects its shapes.)"""
import writercommon as wc


def build(tier, seed):
    qs = []
    for name, kw in wc.standard_shapes(tier, "wf"):
        qs.append(wc.wq(name, witness=("_t4_ri2_bs40" in name or "_t0_" in name), **kw))
    # separator function alone: every start < limit with lengths <= 3 (4 in the thorough tier)
    meta = {
        "functions": wc.FUNCS, "units": ["mtbl/writer.c", "mtbl/block_builder.c"] + wc.UNITS,
        "bounds": "tables of <= 6 entries, keys <= 3 bytes (incl. empty key), values <= 30 bytes, restart interval 1..16, block size 24..200 (0..3 block cuts), foreign prefix 0..17 bytes, compression ids 0..5 with default / explicit level through a ghost identity codec; for each shape every value byte, every key byte that does not decide the order of two adjacent keys, and every CRC value is a solver variable",
        "outside": "keys whose order is decided by symbolic bytes (the accept/refuse and prefix-sharing decisions then make the file layout symbolic: no verdict within 16 GB); keys/values >= 128 bytes (multi-byte length varints in entries); blocks > 4 GiB (64-bit restart arrays); real compressors (C15) and real CRC values (C17)",
        "stubs": wc.STUBS,
        "assumptions": ["the independent decoder in harness/c_writer.c is the format (written from the format description)"],
        "exhaustive": False,
    }
    return qs, meta
