from vdriver import Query

FUNCS = ["mtbl_sorter_options_*", "mtbl_sorter_init", "mtbl_sorter_add", "_mtbl_sorter_flush", "_mtbl_sorter_get_entry_batch",
         "_mtbl_sorter_write_chunk", "_mtbl_sorter_compare", "_write_temp_file_wrapper", "_collect_readers_cb",
         "mtbl_sorter_iter", "sorter_iter_next/seek/free", "mtbl_sorter_write", "mtbl_sorter_destroy"]
STUBS = ["writer API: records the chunk per descriptor, refuses non-increasing keys (C08 contract)",
         "mtbl_reader_init_fd: hands back the chunk written through that descriptor",
         "merger/source/iter API: k-way merge with fold (C04's oracle) over the chunk readers it was given",
         "threadpool_dispatch/result_handler: job + result callback run at once or at any later pool call / at result_handler_destroy, any order",
         "qsort: any permutation of the array that is sorted by the caller's comparator (ties in any order)",
         "mkstemp/unlink/close: ghost descriptor and temp-file tables; sprintf/getpid fixed",
         "INITIAL_SORTER_VEC_SIZE capacity hint 4 instead of 131072; max_memory written white-box below the setter's 10 MiB clamp"]
US = {"verif_mkstemp.0": 8, "verif_mkstemp.1": 8, "verif_mkstemp.2": 42, "strlen.0": 24, "strdup.0": 24, "strcpy.0": 24, "verif_sprintf.0": 24, "memcpy.0": 24}


def keys_define(keys):
    return "{" + ",".join("{%d,%d}" % (len(k), k[0] if k else 0) for k in keys) + "}"


def sq(name, keys, maxmem=40, pool=0, mergefail=0, scen=0, entry="h_sorter", witness=False, deliver=3, slash=0, mergeempty=0):
    d = {"NA": len(keys), "AKEYS": keys_define(keys) if keys else "{{0,0}}", "MAXMEM": maxmem, "POOL": pool,
         "MERGEFAIL": mergefail, "SCEN": scen, "DELIVER": deliver, "TMPDIR_SLASH": slash}
    if mergeempty:
        d["MERGEEMPTY"] = mergeempty
    smp = {"adds": [k.decode("latin1") for k in keys], "max_memory": maxmem, "pool": bool(pool), "pool_delivery": ["at once", "at the next pool call", "only at result_handler_destroy", "solver-chosen per job"][deliver] if pool else None, "merge_fails_on_call": mergefail, "merge_returns_empty_value_on_call": mergeempty,
           "scenario": ["iterate", "destroy before iterating", "add/write after iter", "mtbl_sorter_write"][scen],
           "values": "symbolic byte per add; qsort tie order and pool delivery points nondeterministic"}
    return Query(name, harness="c_sorter.c", entry=entry, defines=d, unwind=max(8, len(keys) + 3), unwindset=US,
                 flags=["--max-field-sensitivity-array-size", "1024"], object_bits=12, timeout=900, mem_gb=10,
                 sample=smp, leak_check=True, witness=witness)
