"""C18: destroying all objects releases every descriptor, mapping, temp file and allocation.
No separate engine: life-cycle queries of the other harnesses, each ending with everything
destroyed, run with CBMC's memory-leak check plus ghost descriptor/mapping/temp-file tables."""
import sortercommon as sc
import readercommon as rc
import mergercommon as mc
import writercommon as wc
from vdriver import Query
import C19
import C07


def build(tier, seed):
    qs = []
    quick = tier == "quick"
    A, B, C = b"a", b"b", b"c"
    # sorters: destroyed before / after iteration, pooled with jobs in flight, failing merge callback
    for pool, deliver in ((0, 0), (1, 1), (1, 2)):
        for scen in (0, 1, 2):
            for mm in ((18, 40) if quick else (18, 36, 40, 1000)):
                qs.append(sc.sq("sorter_s%d_p%d_d%d_m%d" % (scen, pool, deliver, mm), [B, A, B], maxmem=mm, pool=pool, scen=scen, deliver=deliver,
                                witness=(scen == 1 and pool == 1 and mm == 18 and deliver == 2)))
        for mf in (1, 2):
            for mm in (40, 1000):
                if pool and deliver == 2 and mm == 40:
                    continue    # 4 chunk jobs all delivered inside result_handler_destroy with a failing callback: > 10 GB
                qs.append(sc.sq("sorter_mergefail%d_p%d_d%d_m%d" % (mf, pool, deliver, mm), [B, A, B, B], maxmem=mm, pool=pool, mergefail=mf, deliver=deliver))
    # readers: iterators abandoned mid-way (every history below stops before the table is drained)
    S22 = dict(kls=[1, 2, 2, 1], vls=[0, 1, 1, 0], blk=[2, 2], sepl=[2, 1])
    qs.append(rc.rq("reader_abandon_iter", "h_history", dict(S22, no_trailer=True), ops="n", kind=0))
    qs.append(rc.rq("reader_abandon_get", "h_history", dict(S22, no_trailer=True), ops="n", kind=3, ql=1, ql2=2))
    qs.append(rc.rq("reader_two_iters", "h_history", dict(S22, no_trailer=True), ops="nono", kind=0))
    qs.append(rc.rq("reader_full_cycle", "h_drain", dict(S22, pfx=5), kind=0, verify=1, witness=True))
    # a file that does not open as a table: mapping released, descriptor closed
    for q in C19.build("quick", seed)[0]:
        if q.name in ("open_fd_len540_v1", "open_fd_len524_v0", "open_path_len540", "open_path_len0", "open_fd_len600_v0_magic"):
            q.name = "notatable_" + q.name
            qs.append(q)
    # merger iterators of every kind incl. failing merge callback: per-source iterators destroyed
    src = [[A, C], [B, C]]
    for kind, cq, cq2 in ((0, b"", b""), (1, C, b""), (2, b"", b""), (3, A, C)):
        qs.append(mc.mq("merger_kind%d_abandoned" % kind, src, mode=0, kind=kind, cq=cq, cq2=cq2, ops="n"))
    qs.append(mc.mq("merger_mergefail", [[A], [A], [A, B]], mode=3, failat=1, ops="nn"))
    # lookups for a key one source lacks although its range spans it: that source's iterator yields nothing
    src2 = [[A, C, b"e"], [B, b"d", b"f"]]
    for kind, cq, cq2 in ((1, C, b""), (2, C, b""), (3, C, C)):
        qs.append(mc.mq("merger_kind%d_one_source_empty" % kind, src2, mode=0, kind=kind, cq=cq, cq2=cq2, ops="nn"))
    qs.append(mc.mq("merger_seek_then_abandon", src, mode=0, ops="nSn", ctgt=[A]))
    # writers with refused adds
    qs.append(wc.wq("writer_refusals", [2, 1, 2, 3], [0, 0, 1, 1], [1, 0, 1, 2], ri=2, bs=36, perm=[1, 0, 2, 2, 3, 1], witness=False))
    qs.append(wc.wq("writer_empty", [], [], [], ri=2, bs=36, witness=False))
    # filesets: init, dup, iterators, reloads, destroy in either order -- every ghost reader must be closed and
    # my_fileset destroyed exactly when the last handle goes (the harness is C07's; the final resource checks are C18's)
    for h in (["adxDbcQb", "adEacRa", "adbyxRtcRb", "acxa"] if quick else ["adxDbcQb", "adEacRa", "adbyxRtcRb", "acxa", "adcQtcRab", "adbyxcRQb", "abx", "adhcQtcRab"]):
        for ia, ib in ((60, 60), (0, C07.NEVER)):
            qs.append(C07.fq("fileset_%s_i%s" % (h, ia), h, ia, ib))
    # the real libmy/my_fileset.c: every object handed out by the load callback is destroyed exactly once
    qs += [q for q in C07.myfileset_queries(quick) if q.name in ("myfileset_ab_bc", "myfileset_aa_aab", "myfileset_a_ab_b", "myfileset_abc_abc_vanishes", "myfileset_aa_aa_a", "myfileset_none_a")]
    meta = {
        "functions": sc.FUNCS + C07.FUNCS + ["my_fileset_init", "my_fileset_reload", "my_fileset_destroy"] + ["mtbl_reader_init/_fd/destroy", "reader_iter_free", "merger_iter_free", "mtbl_writer_destroy", "mtbl_iter_destroy"],
        "units": ["mtbl/sorter.c", "mtbl/reader.c", "mtbl/merger.c", "mtbl/writer.c", "mtbl/iter.c", "mtbl/source.c", "mtbl/fileset.c", "libmy/my_fileset.c"],
        "bounds": "the life-cycle shapes listed under 'queries': objects destroyed at every stage (sorter before/after iteration, after a refused add, pooled with chunk jobs still undelivered, failing merge callback; reader iterators abandoned after one call; files that do not open; merger iterators of all kinds abandoned; writers with refused adds; filesets with a dup, open iterators, reloads and destroy in either order); CBMC --memory-leak-check plus ghost tables for descriptors, mappings and temp files",
        "outside": "fileset.c and my_fileset.c are run in separate queries meeting at my_fileset's contract; real threads (C13/C14), histories longer than the harness shapes; 'all finite histories' is approximated by destroy-at-every-stage shapes",
        "stubs": sc.STUBS + rc.STUBS + C07.STUBS,
        "assumptions": [],
        "exhaustive": False,
    }
    return qs, meta
