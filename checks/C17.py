"""C17 CRC-32C: slicing-by-8 and SSE4.2 implementations vs the bitwise definition"""
import os
import subprocess
import tempfile
import shutil
import vdriver
from vdriver import Query

SL = ["libmy/crc32c-slicing.c"]
IMPL = {0: "slicing", 1: "sse42"}


def positions(L, tier):
    if tier == "quick":
        ps = {0} | set(range(max(0, L - 9), L))
    else:
        ps = set(range(0, min(L, 3))) | set(range(max(0, L - 12), L))
    return sorted(p for p in ps if 0 <= p < L)


def build(tier, seed):
    qs = []
    quick = tier == "quick"
    common = dict(harness="c17_crc.c", units=SL, unwind=50, timeout=900, mem_gb=10, no_replay=False,
                  native_units=SL, extra_cc=[])
    all_A = list(range(8))
    # (a) all contents symbolic
    for impl in (0, 1):
        lmax = 2 if impl == 0 else (3 if quick else 4)
        for L in range(0, lmax + 1):
            As = all_A if (not quick or L <= 1) else ([0, 3] if impl == 0 else [0, 1, 3, 6])
            for A in As:
                # slicing: the 8x256 table costs ~75 s of flattening on the SAT back end whatever the
                # query; z3 decides L<=1 in a second, L=2 only finishes on SAT
                be = "z3" if (impl == 0 and L <= 1) else "minisat"
                qs.append(Query("all_%s_L%d_A%d" % (IMPL[impl], L, A), entry="h_all", defines={"IMPL": impl, "L": L, "A": A},
                                sample={"impl": IMPL[impl], "len": L, "align": A, "content": "all bytes symbolic"},
                                nontrivial=(L > 0), backend=be, **common))
    # known answers
    for impl in (0, 1):
        qs.append(Query("known_%s" % IMPL[impl], entry="h_known", defines={"IMPL": impl}, backend=("z3" if impl == 0 else "minisat"),
                        sample={"impl": IMPL[impl], "vectors": "RFC 3720 B.4 + check value"}, **common))
    # (b) one symbolic byte
    if quick:
        Ls0 = [1, 3, 4, 7, 8, 9, 12, 16, 17, 24]
        As0 = [0, 1, 2, 3, 5]
        Ls1 = list(range(1, 25))
        As1 = [0, 1, 4, 7]
        # rotate an extra length/alignment in by seed
        Ls0 = sorted(set(Ls0 + [1 + (seed * 5) % 40]))
        As0 = sorted(set(As0 + [seed % 8]))
    else:
        Ls0 = list(range(1, 41))
        As0 = all_A
        Ls1 = list(range(1, 41))
        As1 = all_A
    for bg in ((1,) if quick else (0, 1)):
        for L in Ls0:
            if bg == 0 and L > 16:
                continue
            for A in As0:
                for pos in positions(L, tier):
                    c = dict(common)
                    qs.append(Query("one_slicing_L%d_A%d_p%d_bg%d" % (L, A, pos, bg), entry="h_one", backend="z3",
                                    defines={"IMPL": 0, "L": L, "A": A, "BG": bg, "POS": pos},
                                    sample={"impl": "slicing", "len": L, "align": A, "symbolic_byte_at": pos, "background": bg},
                                    witness=(pos == L - 1), **c))
        for L in Ls1:
            for A in As1:
                if L <= 24:
                    qs.append(Query("one_sse42_L%d_A%d_bg%d" % (L, A, bg), entry="h_one",
                                    defines={"IMPL": 1, "L": L, "A": A, "BG": bg},
                                    sample={"impl": "sse42", "len": L, "align": A, "symbolic_byte_at": "every position in turn", "background": bg},
                                    **common))
                else:
                    for pos in positions(L, tier):
                        qs.append(Query("one_sse42_L%d_A%d_p%d_bg%d" % (L, A, pos, bg), entry="h_one",
                                        defines={"IMPL": 1, "L": L, "A": A, "BG": bg, "POS": pos},
                                        sample={"impl": "sse42", "len": L, "align": A, "symbolic_byte_at": pos, "background": bg},
                                        witness=(pos == L - 1), **common))
    # two symbolic bytes at the last two positions
    for impl in ((1,) if quick else (0, 1)):   # slicing pairs: thorough only (85 s each on SAT)
        for L in ([2, 5, 9] if quick else [2, 3, 4, 5, 6, 7, 8, 9, 10, 11, 12]):
            for A in ([0, 3] if quick else [0, 1, 3, 6]):
                qs.append(Query("two_%s_L%d_A%d" % (IMPL[impl], L, A), entry="h_two",
                                defines={"IMPL": impl, "L": L, "A": A, "BG": 1, "POS": L - 2, "POS2": L - 1},
                                sample={"impl": IMPL[impl], "len": L, "align": A, "symbolic_bytes_at": [L - 2, L - 1]}, **common))
    qs.append(Query("dispatch", harness="c17_dispatch.c", entry="h_dispatch", unwind=6, timeout=300,
                    sample={"cpu_has_sse42": "either", "constructor_ran": "either"}))
    meta = {
        "functions": ["my_crc32c_slicing (+ its 8x256 table)", "my_crc32c_sse42 (inline asm replaced by the instruction model)",
                      "my_crc32c_runtime_detection", "my_crc32c_first", "mtbl_crc32c"],
        "units": ["libmy/crc32c-slicing.c", "libmy/crc32c-sse42.c", "libmy/crc32c.c", "mtbl/crc32c_wrap.c"],
        "bounds": "all-content equivalence for lengths 0..2 (slicing) / 0..4 (sse42); one arbitrary byte at a stated position on a concrete background for lengths up to 24 (quick) / 40 (thorough), alignments 0..7; two arbitrary bytes at the last two positions for lengths <= 12",
        "outside": "all-content equivalence for longer buffers (XOR-network equivalence: no verdict within the caps on any back end); lengths above 40 (same loop body per further 8-byte chunk); two arbitrary bytes at arbitrary positions (no verdict in 5 min)",
        "stubs": ["x86 CRC32 instruction: C model in shim/asm_crc32.h, validated against the host CPU on every run when SSE4.2 is present",
                  "cpuid: outputs unconstrained (both dispatch outcomes explored)"],
        "assumptions": ["CBMC's pointer encoding: (uintptr_t)p & 7 is the offset inside the object, so the buffer object starts 8-aligned",
                        "unaligned 32/64-bit loads behave as on x86-64 (byte-wise little-endian)"],
        "exhaustive": False,
    }
    return qs, meta


INSN_TEST = r'''
#include <stdint.h>
#include <stdio.h>
#include <nmmintrin.h>
#include "asm_crc32.h"
#undef asm
void verif_unknown_asm(void) { }
int main(void) {
    uint64_t x = 0x9E3779B97F4A7C15ull, bad = 0; unsigned n = 0;
    for (int i = 0; i < 20000; i++) {
        x ^= x << 13; x ^= x >> 7; x ^= x << 17;
        uint64_t v = x * 0x2545F4914F6CDD1Dull; uint32_t c = (uint32_t)(x >> 11);
        if ((uint64_t)_mm_crc32_u64(c, v) != verif_crc32_insn("\"crc32q %[value], %[crc]", c, v)) bad++;
        if (_mm_crc32_u32(c, (uint32_t)v) != (uint32_t)verif_crc32_insn("\"crc32l %[value], %[crc]", c, (uint32_t)v)) bad++;
        if (_mm_crc32_u16(c, (uint16_t)v) != (uint32_t)verif_crc32_insn("\"crc32w %[value], %[crc]", c, (uint16_t)v)) bad++;
        if (_mm_crc32_u8(c, (uint8_t)v) != (uint32_t)verif_crc32_insn("\"crc32b %[value], %[crc]", c, (uint8_t)v)) bad++;
        n += 4;
    }
    printf("%u %llu\n", n, (unsigned long long)bad);
    return bad != 0;
}
'''


def validate_insn_model():
    """translator validation of shim/asm_crc32.h against the host's CRC32 instruction"""
    if "sse4_2" not in open("/proc/cpuinfo").read():
        return None, "host CPU has no SSE4.2: model validation skipped"
    os.makedirs(vdriver.WORKROOT, exist_ok=True)
    d = tempfile.mkdtemp(prefix="insn_", dir=vdriver.WORKROOT)
    try:
        src = os.path.join(d, "t.c")
        open(src, "w").write(INSN_TEST)
        exe = os.path.join(d, "t")
        r = subprocess.run(["gcc", "-O1", "-msse4.2", "-I" + vdriver.SHIM_DIR, "-o", exe, src], capture_output=True, text=True)
        if r.returncode != 0:
            return False, "compile failed: " + r.stderr[-400:]
        r = subprocess.run([exe], capture_output=True, text=True)
        return r.returncode == 0, r.stdout.strip()
    finally:
        shutil.rmtree(d, ignore_errors=True)
        try:
            os.rmdir(vdriver.WORKROOT)
        except OSError:
            pass


def run(tier, seed):
    qs, meta = build(tier, seed)
    ok, msg = validate_insn_model()
    pre = [{"name": "insn_model_vs_host_cpu", "entry": "gcc -msse4.2 _mm_crc32_u8/u16/u32/u64 vs verif_crc32_insn", "harness": "shim/asm_crc32.h",
            "sample": {"values_compared_and_mismatches": msg}, "verdict": "holds" if ok in (True, None) else "inconclusive",
            "failed": [], "info": {"vccs": 1}, "wall_s": 0.5, "witness": "n/a",
            "notes": [] if ok in (True, None) else ["instruction model disagrees with the host CPU: " + str(msg)],
            "backend": "native", "nontrivial": ok is True}]
    return vdriver.run_check("C17", tier, qs, meta, pre_results=pre)
