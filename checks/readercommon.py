"""Shared query builder for the reader-level harness (harness/c_reader.c)."""
import math
import shapes
import vdriver
from vdriver import Query

UNITS = ["mtbl/block.c", "mtbl/metadata.c", "mtbl/varint.c", "mtbl/fixed.c", "mtbl/iter.c", "mtbl/source.c"]
FUNCS = ["mtbl_reader_init_fd", "reader_iter", "reader_iter_init", "reader_get", "reader_get_prefix", "reader_get_range",
         "reader_iter_seek", "needs_index_seek", "reader_iter_next", "reader_iter_free", "get_block", "get_block_at_index",
         "mtbl_reader_destroy", "block_init", "block_iter_init", "block_iter_seek", "block_iter_seek_to_first",
         "block_iter_next", "block_iter_get", "parse_next_key", "decode_entry", "compare_restart_point", "get_restart_point",
         "mtbl_iter_next", "mtbl_iter_seek", "mtbl_iter_destroy", "mtbl_source_iter/get/get_prefix/get_range", "metadata_read",
         "mtbl_varint_decode64", "mtbl_fixed_decode32/64", "bytes_compare"]
STUBS = ["fstat/mmap/munmap/getenv/posix_madvise: ghost file (exactly file-sized static object)",
         "mtbl_crc32c: uninterpreted function with a call log (returns the stored value exactly for a block's stored bytes)",
         "mtbl_decompress: ghost identity codec recording the algorithm asked for",
         "MAP_FAILED: environment sentinel modelled as the address of a distinct object"]


def rq(name, entry, spec, ops=None, kind=0, ql=1, ql2=1, t0l=1, t1l=1, verify=0, timeout=1500, mem_gb=14, extra=None, sample=None, witness=True, us_extra=None):
    kls, vls, blk = spec["kls"], spec["vls"], spec["blk"]
    n = len(kls)
    rsts = list(spec.get("rsts") or [1] * n)
    first = 0
    maxr = 1
    maxrun = 1
    for cnt in blk:
        rsts[first] = 1
        r = sum(1 for i in range(first, first + cnt) if rsts[i])
        maxr = max(maxr, r)
        run = 0
        for i in range(first, first + cnt):
            run = 1 if rsts[i] else run + 1
            maxrun = max(maxrun, run)
        first += cnt
    irst = list(spec.get("irst") or [1] * len(blk))
    ir = max(1, sum(1 for b in range(len(blk)) if b == 0 or irst[b]))
    irun = 1
    run = 0
    for b in range(len(blk)):
        run = 1 if (b == 0 or irst[b]) else run + 1
        irun = max(irun, run)
    R = max(maxr, ir)
    run_max = max(maxrun, irun)
    d = shapes.reader_defines(**spec)
    d.update({"KIND": kind, "QL": ql, "QL2": ql2, "T0L": t0l, "T1L": t1l, "VERIFY": int(verify)})
    if ops is not None:
        d["OPS"] = '"%s"' % ops
    if extra:
        d.update(extra)
    if spec.get("cq") is not None:
        ql = len(spec["cq"])
        ql2 = len(spec.get("cq2") or [])
        d["QL"], d["QL2"] = ql, ql2
    maxlen = max(list(kls) + list(spec.get("sepl") or [1]) + [ql, ql2, t0l, t1l, 1] + [len(t) for t in (spec.get("ctgt") or [])])
    big_off = d["FILE_LEN"] - (0 if spec.get("no_trailer") else 512)
    us = {
        "block_iter_seek.0": R + 1, "block_iter_seek.1": int(math.log2(R)) + 3 if R > 1 else 2, "block_iter_seek.2": run_max + 2,
        "parse_next_key.0": R + 1, "_varint_decode.0": 3 if big_off >= 128 else 2,
        "memcmp.0": maxlen + 1, "mtbl_decompress.0": 65,
        "ubuf_reserve.0": 1, "ubuf_reserve$link1.0": 1, "ubuf_reserve$link2.0": 1,
        "r_layout.0": spec.get("pfx", 0) + 2,      # the foreign-prefix loop of the reference encoder
    }
    if maxlen > 60:     # key buffers (initial capacity 64) grow
        us.update({"ubuf_reserve.0": 4, "ubuf_reserve$link1.0": 4, "ubuf_reserve$link2.0": 4})
    if us_extra:
        us.update(us_extra)
    smp = {"entries": n, "key_lens": kls, "val_lens": vls, "blocks": blk, "restarts": rsts, "shared": spec.get("shs"),
           "sep_lens": spec.get("sepl"), "version": spec.get("ver", 2), "prefix": spec.get("pfx", 0),
           "kind": ["iter", "get", "get_prefix", "get_range"][kind], "ops": ops, "verify_checksums": verify,
           "white_box_reader": bool(spec.get("no_trailer")),
           "content": ("keys/separators concrete %s, values and the 's' seek targets symbolic" % (spec.get("ckeys"),)) if spec.get("ckeys") is not None
                      else "all key/value/separator/query/target bytes symbolic"}
    if sample:
        smp.update(sample)
    return Query(name, harness="c_reader.c", entry=entry, defines=d, units=UNITS, unwind=max(12, n + 4, (maxlen + 2) if maxlen > 8 else 0, (max(vls) + 2) if max(list(vls) + [0]) > 8 else 0),
                 unwindset=us, flags=["--max-field-sensitivity-array-size", str(max(1024, d["FILE_LEN"] + 8))], object_bits=12,
                 timeout=timeout, mem_gb=mem_gb, sample=smp, leak_check=True, witness=witness)
