"""C13, layer A only (see DESIGN.md C13): the pooled writer and the pooled sorter produce the same result as
without a pool under every delivery point the thread pool's documented contract allows; every dispatched job
is delivered exactly once, in order where ordering is requested, before close/destroy returns.
The pool itself (threadpool.c under all thread interleavings) is NOT encoded -- layer C is outside."""
import writercommon as wc
import sortercommon as sc


def build(tier, seed):
    qs = []
    quick = tier == "quick"
    tables = [("t4", [2, 1, 2, 3], [0, 0, 1, 1], [1, 0, 1, 2]), ("t6", [1, 1, 2, 2, 2, 1], [0, 0, 0, 1, 1, 0], [0, 0, 0, 0, 0, 0])]
    for tag, kls, lcps, vls in tables:
        for bs in ((28, 40) if quick else (24, 28, 32, 40, 200)):
            for deliver in (0, 1, 2):      # solver-chosen cut-offs make the file layout symbolic: no verdict in 15 min
                for comp in ((0, 2) if deliver == 2 else (0,)):
                    qs.append(wc.wq("wpool_%s_bs%d_d%d_c%d" % (tag, bs, deliver, comp), kls, lcps, vls, ri=2, bs=bs, compw=comp, pool=1, deliver=deliver,
                                    witness=(tag == "t4" and bs == 28 and deliver == 2)))
    # refusals + pool
    qs.append(wc.wq("wpool_refusals", [2, 1, 2, 3], [0, 0, 1, 1], [1, 0, 1, 2], ri=2, bs=30, perm=[1, 0, 2, 2, 3, 1], pool=1, deliver=2, witness=False))
    qs.append(wc.wq("wpool_empty", [], [], [], ri=2, bs=30, pool=1, deliver=1, witness=False))
    A, B, C = b"a", b"b", b"c"
    for keys in ([[B, A, B], [C, B, A]] if quick else [[B, A, B], [C, B, A], [A, A, A], [B, b"", B, A]]):
        for mm in (18, 40):
            for deliver in (0, 1, 2):
                for scen in (0, 1):
                    qs.append(sc.sq("spool_%s_m%d_d%d_s%d" % ("".join(k.decode() or "_" for k in keys), mm, deliver, scen), keys, maxmem=mm, pool=1, deliver=deliver, scen=scen))
    meta = {
        "functions": wc.FUNCS + sc.FUNCS + ["_compress_block_wrapper", "_write_data_block_wrapper", "_write_temp_file_wrapper", "_collect_readers_cb"],
        "units": ["mtbl/writer.c", "mtbl/sorter.c"],
        "bounds": "LAYER A ONLY: writer.c and sorter.c against the thread pool's documented contract (job then result callback, each exactly once, at once / at the next pool call / only when the handler is joined -- three enumerated schedules; ordered delivery for the writer, any order for the sorter); files of <= 6 entries with 1..4 blocks, sorters of <= 4 adds and <= 4 chunks; the produced file is judged by the same independent decoder as without a pool (same entries, offsets, counters)",
        "outside": "threadpool.c itself: mutex/condition-variable protocol, worker reuse, bounded thread creation, lost wake-ups, hangs -- i.e. the property's quantifier over real thread schedules. CBMC 6.11 refuses the unit ('pointer handling for concurrency is unsound'), no other concurrency engine is installed; stated in DESIGN.md. Jobs run in dispatch order in the model (the real pool may run them concurrently; they touch disjoint blocks)",
        "stubs": wc.STUBS + ["thread pool API: contract model (see bounds)"],
        "assumptions": ["threadpool.c meets its documented contract (threadpool.h comments)"],
        "exhaustive": False,
    }
    return qs, meta
