"""C13, layers A and B (see DESIGN.md C13).
A: the pooled writer and the pooled sorter produce the same result as without a pool under every delivery point
   the thread pool's contract allows; every dispatched job is delivered exactly once, in order where ordering is
   requested, before close/destroy returns.
B: mtbl/threadpool.c itself, one protocol step at a time from every small pre-state that satisfies the queue/idle-list
   invariant (inductive steps): dispatch, saturated dispatch, worker job, worker shutdown, result dequeue, end of stream,
   handler loop, handler life cycle, pool destroy.  Each step's post-state must satisfy the invariant and the step's
   contract (the contract layer A assumes).
Interleavings INSIDE a step (true concurrency, lost wake-ups, races) are NOT encoded -- layer C is outside."""
import writercommon as wc
import sortercommon as sc
from vdriver import Query


def stepq(entry, rqn, idlen, ordered, witness=True):
    return Query("pool_%s_q%d_i%d_o%d" % (entry[2:], rqn, idlen, ordered), harness="c13_steps.c", entry=entry,
                 defines={"RQN": rqn, "IDLEN": idlen, "ORDERED": ordered}, unwind=10, timeout=300, mem_gb=3,
                 sample={"step": entry[2:], "result_queue_length_before": rqn, "idle_threads_before": idlen, "ordered": bool(ordered),
                         "symbolic": "pool->max (1..10), pool->count and rq->nthreads slack (0..2 each), rq->finished"},
                 witness=witness)


def step_queries(quick):
    qs = []
    R = (0, 1, 2) if quick else (0, 1, 2, 3)
    for rqn in R:
        for idlen in R:
            for o in (0, 1):
                qs.append(stepq("h_dispatch", rqn, idlen, o, witness=(rqn == 1 and idlen == 1)))
                if (idlen < 2 or not quick) and (rqn >= 1 or not o):
                    qs.append(stepq("h_worker_step", rqn, idlen, o, witness=(rqn == 1 and idlen == 0)))   # ordered: the worker's thread is one of the queued ones
            if rqn >= 1:
                qs.append(stepq("h_resultq_next", rqn, idlen, 1, witness=(idlen == 0)))
        qs.append(stepq("h_resultq_end", 0, rqn, 1, witness=(rqn == 0)))
    qs.append(stepq("h_worker_shutdown", 1, 1, 1))
    for rqn in R:
        for o in (0, 1):
            qs.append(stepq("h_dispatch_saturated", rqn, 0, o, witness=(rqn == 1)))
        for idlen in ((0, 1) if quick else R):
            qs.append(stepq("h_result_worker", rqn, idlen, 1, witness=(rqn == 2 and idlen == 0)))
        qs.append(stepq("h_pool_destroy", 0, rqn, 1, witness=(rqn == 2)))
    qs.append(stepq("h_handler_lifecycle", 0, 0, 1))
    qs.append(stepq("h_public_wrappers", 0, 0, 1))
    return qs


def build(tier, seed):
    qs = []
    quick = tier == "quick"
    tables = [("t4", [2, 1, 2, 3], [0, 0, 1, 1], [1, 0, 1, 2]), ("t6", [1, 1, 2, 2, 2, 1], [0, 0, 0, 1, 1, 0], [0, 0, 0, 0, 0, 0])]
    for tag, kls, lcps, vls in tables:
        for bs in ((28, 40) if quick else (24, 28, 32, 40, 200)):
            for deliver in (0, 1, 2):      # solver-chosen cut-offs make the file layout symbolic: no verdict in 15 min
                for comp in ((0, 2) if deliver == 2 else (0,)):
                    qs.append(wc.wq("wpool_%s_bs%d_d%d_c%d" % (tag, bs, deliver, comp), kls, lcps, vls, ri=2, bs=bs, compw=comp, pool=1, deliver=deliver,
                                    witness=(tag == "t4" and bs == 28 and deliver == 2)))
    # refusals + pool
    qs.append(wc.wq("wpool_refusals", [2, 1, 2, 3], [0, 0, 1, 1], [1, 0, 1, 2], ri=2, bs=30, perm=[1, 0, 2, 2, 3, 1], pool=1, deliver=2, witness=False))
    qs.append(wc.wq("wpool_empty", [], [], [], ri=2, bs=30, pool=1, deliver=1, witness=False))
    A, B, C = b"a", b"b", b"c"
    for keys in ([[B, A, B], [C, B, A]] if quick else [[B, A, B], [C, B, A], [A, A, A], [B, b"", B, A]]):
        for mm in (18, 40):
            for deliver in (0, 1, 2):
                for scen in (0, 1):
                    qs.append(sc.sq("spool_%s_m%d_d%d_s%d" % ("".join(k.decode() or "_" for k in keys), mm, deliver, scen), keys, maxmem=mm, pool=1, deliver=deliver, scen=scen))
    qs += step_queries(quick)
    meta = {
        "functions": wc.FUNCS + sc.FUNCS + ["_compress_block_wrapper", "_write_data_block_wrapper", "_write_temp_file_wrapper", "_collect_readers_cb",
                                            "threadpool_next", "threadpool_dispatch", "thread_worker", "resultq_init", "resultq_next", "resultq_finish", "resultq_destroy",
                                            "result_worker", "result_handler_init", "result_handler_destroy", "threadpool_destroy", "threadpool_init", "mtbl_threadpool_init", "mtbl_threadpool_destroy"],
        "units": ["mtbl/writer.c", "mtbl/sorter.c", "mtbl/threadpool.c"],
        "bounds": "LAYER B: each threadpool.c protocol step run once, sequentially, from every pre-state with a result queue of 0..2 threads and an idle list of 0..2 threads (0..3 each in the thorough tier) that satisfies the invariant (queue is a NULL-terminated list whose tail pointer addresses the last link; idle threads have empty mailboxes; count <= max), pool->max 1..10 and the slack of count/nthreads (0..2) symbolic; post-state must satisfy the invariant + the step's contract (job handed over, queued at the tail iff ordered, one result out per dequeue in queue order, thread returned to the idle list, waits exactly when the enabling condition is false, no thread created at count == max, destroy/join return). A condition wait = release the mutex, record it, let the environment make the awaited condition true once, re-acquire; waiting a second time or waiting when enabled is a violation; join = the joined thread's function runs to completion. LAYER A: writer.c and sorter.c against the thread pool's documented contract (job then result callback, each exactly once, at once / at the next pool call / only when the handler is joined -- three enumerated schedules; ordered delivery for the writer, any order for the sorter); files of <= 6 entries with 1..4 blocks, sorters of <= 4 adds and <= 4 chunks; the produced file is judged by the same independent decoder as without a pool (same entries, offsets, counters)",
        "outside": "interleavings INSIDE a step and true concurrency: two threads inside threadpool.c at once, lost wake-ups (signal before wait), spurious wake-ups, unlocked reads of thread fields (thread_worker reads me->cb without the mutex), data races -- i.e. the property's quantifier over real thread schedules is covered only as far as each step is atomic with respect to the locks it takes. CBMC 6.11 refuses threaded encodings of the unit ('pointer handling for concurrency is unsound'), a sequentialised scheduler harness did not finish (attic/), no other concurrency engine is installed; stated in DESIGN.md. Queues/idle lists longer than 2. Jobs run in dispatch order in the model (the real pool may run them concurrently; they touch disjoint blocks)",
        "stubs": wc.STUBS + ["layer A: thread pool API = contract model (see bounds)",
                             "layer B: pthread_mutex_lock/unlock = lock flag with discipline check; pthread_cond_wait = release, record, environment makes the condition true once, re-acquire; pthread_cond_signal = no-op; pthread_create = recorded (the thread body is run by the step that models it); pthread_join = joined thread's function runs to completion"],
        "assumptions": ["layer B pre-states: the stated invariant (assumed, and re-established by every step = inductive)", "layer A: threadpool.c meets the contract layer B checks step by step",
                        "calloc does not fail (threadpool.c does not check it; allocation failure is outside C13)"],
        "exhaustive": False,
    }
    return qs, meta
