"""C19 opening arbitrary bytes: mtbl_reader_init_fd / mtbl_reader_init on an arbitrary file"""
import vdriver
from vdriver import Query

UNITS = ["mtbl/metadata.c", "mtbl/block.c", "mtbl/varint.c", "mtbl/fixed.c", "mtbl/source.c", "mtbl/iter.c"]
NATIVE = vdriver.all_units_except("mtbl/reader.c", "mtbl/crc32c_wrap.c", "mtbl/compression.c")
NLIBS = ["-lpthread"]


def build(tier, seed):
    qs = []
    if tier == "quick":
        lens = [0, 1, 511, 512, 513, 524, 525, 528, 540, 600]
        path_lens = [0, 540]
    else:
        lens = sorted(set(list(range(0, 8)) + [100, 511] + list(range(512, 560)) + [576, 600, 640, 700, 1024, 1100]))
        path_lens = [0, 511, 512, 525, 540, 640]
    # rotate a few extra lengths into the quick tier by seed
    if tier == "quick":
        extra = [512 + ((seed * 7 + i * 13) % 128) for i in range(2)]
        lens = sorted(set(lens + extra))
    for ln in lens:
        for verify in (0, 1):
            for force in ((0, 1) if ln >= 525 else (0,)):  # 525 = smallest file that can open (512 trailer + 13)
                d = {"LEN": ln, "VERIFY": verify}
                if force:
                    d["FORCE_MAGIC"] = None
                qs.append(Query("open_fd_len%d_v%d%s" % (ln, verify, "_magic" if force else ""), harness="c19_open.c",
                                entry="h_open_fd", defines=d, units=UNITS, unwind=12,
                                unwindset={"make_file.0": ln + 1}, timeout=900, mem_gb=10, stop_ok=True,
                                nontrivial=(ln >= 512),
                                sample={"file_len": ln, "verify_checksums": verify, "content": "every byte symbolic" + ("; trailer magic forced valid (v1 or v2)" if force else "")}))
    for ln in path_lens:
        qs.append(Query("open_path_len%d" % ln, harness="c19_open.c", entry="h_open_path",
                        defines={"LEN": ln, "VERIFY": 0}, units=UNITS, unwind=12,
                        unwindset={"make_file.0": ln + 1}, timeout=900, mem_gb=10, stop_ok=True,
                        nontrivial=(ln >= 512),
                        sample={"file_len": ln, "api": "mtbl_reader_init(path)", "open": "fails or succeeds"}))
    meta = {
        "functions": ["mtbl_reader_init_fd", "mtbl_reader_init", "reader_init_madvise", "mtbl_reader_destroy", "metadata_read",
                      "block_init", "num_restarts", "block_destroy", "mtbl_varint_decode64", "_varint_decode",
                      "mtbl_fixed_decode32", "mtbl_fixed_decode64", "mtbl_source_init", "mtbl_source_destroy"],
        "units": ["mtbl/reader.c"] + UNITS,
        "bounds": "file lengths listed in 'queries' (quick: 12 lengths between 0 and 640; thorough: every length 512..559 and samples up to 1100); for each length EVERY byte of the file is a solver variable, with and without verify_checksums, options NULL or given",
        "outside": "files longer than 1100 bytes (only the position of the trailer differs); what happens on later reads of data blocks (not part of C19)",
        "stubs": ["fstat: st_size = LEN", "mmap: MAP_FAILED or the LEN-byte heap object", "munmap/open/close: ghost counters",
                  "posix_madvise: any int, range checked", "getenv: NULL | \"0\" | \"1\" | \"x\"",
                  "mtbl_crc32c: any 32-bit value; asserts the requested range lies inside the file"],
        "assumptions": ["the mapping is exactly as long as the file (a real mmap rounds up to a page; reading the slack would be a fault at a page boundary)",
                        "stopping on one of mtbl's own assert()s is an allowed outcome (the property says so)"],
        "exhaustive": False,
    }
    return qs, meta
