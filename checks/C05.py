"""C05: merger lookups and seeks behave like one table holding the merged content."""
import mergercommon as mc


def targets(keys):
    """interesting concrete targets around a key set: each key, predecessors/successors, prefix/extension, extremes"""
    ts = {b"", b"\xff\xff"}
    for k in keys:
        ts.add(k)
        ts.add(k + b"\x00")
        if k:
            ts.add(k[:-1])
            if k[-1] > 0:
                ts.add(k[:-1] + bytes([k[-1] - 1]))
            if k[-1] < 255:
                ts.add(k[:-1] + bytes([k[-1] + 1]))
    return sorted(t for t in ts if len(t) <= 2)


def build(tier, seed):
    qs = []
    quick = tier == "quick"
    A, B, C, D, E = b"a", b"b", b"c", b"d", b""
    fams = [("f0", [[A, C], [B, C]]), ("f1", [[A, B, D], [B, C]]), ("f2", [[E, B], [A, B]]),
            ("f7", [[A, B], [C, D]])]      # first source ends before the second begins (lookups there get no iterator from source 1)
    if not quick:
        fams += [("f3", [[A], [B], [C]]), ("f4", [[A, C], [A, C], [B]]), ("f5", [[A, b"ab"], [b"a\xff", B]])]
    for tag, src in fams:
        keys = sorted({k for s in src for k in s})
        n = len(keys)
        tg = targets(keys)
        if quick:
            tg = [t for i, t in enumerate(tg) if (i + seed) % 2 == 0 or t in keys]
        # seek from every position (0..n nexts before), then drain
        for pos in range(0, n + 2):
            if quick and pos not in (0, 1, n, n + 1):
                continue
            for t in tg:
                qs.append(mc.mq("seek_%s_p%d_%s" % (tag, pos, t.hex() or "empty"), src, mode=0, ops="n" * pos + "S" + "n" * 3, ctgt=[t],
                                witness=(pos == 1 and t == keys[0])))
        # two seeks: forward then backward, and to the same key twice
        for t1, t2 in ([(keys[-1], keys[0]), (keys[0], keys[0]), (keys[1], keys[1] + b"\x00")] if n >= 2 else []):
            qs.append(mc.mq("seek2_%s_%s_%s" % (tag, t1.hex() or "e", t2.hex() or "e"), src, mode=0, ops="nSnSnn", ctgt=[t1, t2]))
        # lookups through the merger source, every interesting query
        for q in tg:
            qs.append(mc.mq("get_%s_%s" % (tag, q.hex() or "empty"), src, mode=0, kind=1, cq=q, ops="nnn"))
            qs.append(mc.mq("prefix_%s_%s" % (tag, q.hex() or "empty"), src, mode=0, kind=2, cq=q, ops="n" * (n + 2)))
        for q0, q1 in [(tg[0], tg[-1]), (keys[0], keys[-1]), (keys[-1], keys[0]), (keys[n // 2], keys[-1]), (keys[n // 2] + b"\x00", b"\xff")] + ([(keys[1], keys[1])] if n > 1 else []) + ([] if quick else [(a, b) for a in tg[::3] for b in tg[1::3]]):
            qs.append(mc.mq("range_%s_%s_%s" % (tag, q0.hex() or "e", q1.hex() or "e"), src, mode=0, kind=3, cq=q0, cq2=q1, ops="n" * (n + 2)))
        # seeks on bounded merger iterators
        qs.append(mc.mq("rangeseek_%s" % tag, src, mode=0, kind=3, cq=keys[0], cq2=keys[-1], ops="nSnn", ctgt=[keys[min(1, n - 1)]]))
    # seek; seek; next with no next in between, for every ordered pair of targets (a source that runs dry on the
    # first seek must be re-sought by the second)
    src6 = [[B, C, D], [A, b"x"]]
    t6 = [A, B, C, D, b"m", b"x", b"z"]
    for t1 in (t6 if not quick else [b"m", C, b"z"]):
        for t2 in (t6 if not quick else [A, C, b"m"]):
            for pre in ("n", ""):
                qs.append(mc.mq("seekseek_%s_%s_%s" % (pre or "0", t1.hex(), t2.hex()), src6, mode=0, ops=pre + "SSnnnn", ctgt=[t1, t2]))
    meta = {
        "functions": mc.FUNCS, "units": ["mtbl/merger.c", "libmy/heap.c", "mtbl/iter.c", "mtbl/source.c"],
        "bounds": "2..3 sources, <= 5 entries, concrete keys; every 'interesting' concrete target around the key set (each key, its predecessor/successor strings, proper prefix, one-byte extension, empty string, above everything) from every iterator position, pairs of seeks (forward then backward, same key twice), get/get_prefix/get_range through the merger source for those queries; values symbolic so merged values are decided for all values",
        "outside": "seek targets as solver variables (heap order then becomes symbolic: not attempted within the budget) -- targets are enumerated instead, the solver decides the value flow; more than two seeks per history",
        "stubs": mc.STUBS,
        "assumptions": ["input sources meet the reader contract of C02/C03"],
        "exhaustive": False,
    }
    return qs, meta
