"""C04: merger output = sorted union of the sources folded by the merge function."""
import itertools
import mergercommon as mc


def families(quick):
    A, B, C, E = b"a", b"b", b"c", b""
    fam = [
        [[A, C], [B, C]],                 # interleaved, one shared key
        [[A, B], [A, B]],                 # fully overlapping
        [[A], [B], [C]],                  # disjoint
        [[A, C], []],                     # an empty source
        [[], []],
        [],                               # no sources at all
        [[E, C], [B]],                    # empty key followed by other entries
        [[E], [E, A]],                    # empty key needing a merge
        [[A], [A], [A]],                  # three occurrences: value-sensitive fold
        [[A, b"ab"], [b"a\xff", B]],      # prefixes / 0xff
    ]
    # seven sources whose first keys hide small keys under larger ones in insertion order (heap sift-up)
    fam.append([[A], [B], [b"x"], [C], [b"y"], [b"z"], [b"d"]])
    # the same with sources that continue with large keys, so that heap_replace (not heap_pop) follows the push phase
    fam.append([[A, b"za"], [B, b"zb"], [b"x"], [C, b"zc"], [b"y"], [b"z"], [b"d"]])
    # heap_replace with an ODD number of live sources where the RIGHT child (the last heap slot) is the smaller one
    fam.append([[A, b"d"], [C], [B]])
    fam.append([[A, b"d"], [C, b"e"], [B, b"f"]])
    fam.append([[A, b"z"], [b"e"], [b"d"], [C], [B]])
    if not quick:
        fam.append([[b"g"], [b"f"], [b"e"], [b"d"], [C], [B], [A]])
        fam.append([[A, b"x"], [B], [b"x"], [C], [b"y"], [b"z"], [b"d"], [A]])
    if not quick:
        fam += [[[A, B, C], [B]], [[A, B], [B, C], [A, C]], [[E, A, B], [E, B], [C]], [[B], [A, B, C], []],
                [[A, b"aa", b"ab"], [b"aa"]], [[C], [B], [A]], [[A, B, C, b"d"]], [[A, B], [A, B], [A, B]]]
    return fam


def build(tier, seed):
    qs = []
    quick = tier == "quick"
    for i, src in enumerate(families(quick)):
        n = sum(len(s) for s in src)
        drain = "n" * (n + 2)
        qs.append(mc.mq("merge_f%d" % i, src, mode=0, ops=drain, witness=(i == 0)))
        qs.append(mc.mq("nomerge_f%d" % i, src, mode=1, ops=drain)) if max([sum(1 for s in src if k in s) for k in set(k for s in src for k in s)] + [0]) <= 2 else None
    qs = [q for q in qs if q is not None]
    # dupsort: equal keys ordered by value, for every arrangement of three concrete values
    for i, vals in enumerate(itertools.permutations([1, 5, 9])):
        if quick and i % 2:
            continue
        qs.append(mc.mq("dupsort_%d" % i, [[b"a"], [b"a"], [b"a", b"b"]], mode=2, ops="nnnnnn", cvals=list(vals) + [7]))
    qs.append(mc.mq("dupsort_2src", [[b"a", b"c"], [b"b", b"c"]], mode=2, ops="nnnnnn", cvals=[5, 9, 1, 3]))
    # failing merge callback: the call that would have produced that key fails
    for failat in (1, 2):
        qs.append(mc.mq("mergefail_%d" % failat, [[b"a"], [b"a"], [b"a", b"b"]], mode=3, failat=failat, ops="nn"))
    qs.append(mc.mq("mergefail_later", [[b"a", b"c"], [b"b", b"c"]], mode=3, failat=1, ops="nnnn"))
    # libmy/heap.c alone, every content: fill (push / add+heapify), replace the minimum NR times, drain
    from vdriver import Query
    for nh, nr in ([(3, 2), (4, 1)] if quick else [(1, 1), (2, 2), (3, 2), (3, 3), (4, 1), (4, 3)]):      # 5 items and more: no verdict in 15 min
        for mode in (0, 1):
            qs.append(Query("heap_n%d_r%d_m%d" % (nh, nr, mode), harness="c04_heap.c", entry="h_heap", defines={"NH": nh, "NR": nr, "MODE": mode},
                            units=[], unwind=nh + 3, object_bits=10, timeout=900, mem_gb=8, witness=(nh == 3 and mode == 0), leak_check=True,
                            sample={"items": nh, "replacements": nr, "fill": ["heap_push", "heap_add + heap_heapify"][mode], "symbolic": "every key (8 bit), i.e. every order and every pattern of ties"}))
    meta = {
        "functions": mc.FUNCS + ["heap_init", "heap_push", "heap_add", "heap_heapify", "heap_replace", "heap_pop", "heap_peek", "siftup", "siftdown"], "units": ["mtbl/merger.c", "libmy/heap.c", "mtbl/iter.c", "mtbl/source.c"],
        "bounds": "0..3 sources x 0..4 entries (<= 6 entries in total; plus 5- and 7-source families of one or two entries each for the heap's sift paths), concrete keys of 0..2 bytes chosen to cover interleaved / overlapping / disjoint / empty sources, the empty key, prefixes and 0xff; one symbolic value byte per entry (so the fold is decided for all values); merge = byte sum, none, none+dupsort, failing on its k-th call; full drain plus two further calls",
        "outside": "more than 3 sources / 6 entries in the merger queries (heap.c alone: every content of <= 4 items, <= 3 replacements; larger heaps only through the enumerated 5- and 7-source families); keys decided by symbolic bytes (heap order would become symbolic); the mtbl_merge tool (dlopen/argv/file I/O) and mtbl_source_write over a merger",
        "stubs": mc.STUBS,
        "assumptions": ["input sources meet the reader contract of C02/C03 (assume/guarantee: the real reader is checked against that contract there)"],
        "exhaustive": False,
    }
    return qs, meta
