"""C03 reader iterators: seek-then-next contract under histories of next/seek on all four iterator kinds.

Two families (DESIGN.md C03):
  A  symbolic keys, fresh iterator, ONE symbolic seek, then nexts;
  B  concrete keys (several tables incl. empty key / prefixes / 0xff / restart runs), an arbitrary
     concrete pre-history (nexts, seeks to concrete targets, other-iterator activity) that reaches a
     position, then ONE (thorough: up to TWO) symbolic-target seek(s), then nexts.
"""
import readercommon as rc

KN = {0: "iter", 1: "get", 2: "prefix", 3: "range"}


def T(keys, blk, seps, **kw):
    d = dict(kls=[len(k) for k in keys], vls=[1] * len(keys), blk=blk, sepl=[len(s) for s in seps],
             ckeys=[list(k) for k in keys], cseps=[list(s) for s in seps], no_trailer=True)
    d.update(kw)
    return d


# concrete tables
T21 = T([b"b", b"d"], [1, 1], [b"c", b"d"])
T22 = T([b"b", b"d", b"f", b"h"], [2, 2], [b"e", b"h"])
T31 = T([b"b", b"d", b"f"], [1, 1, 1], [b"c", b"e", b"f"])
T32 = T([b"b", b"d", b"f", b"h", b"j", b"l"], [2, 2, 2], [b"d", b"i", b"l"], irst=[1, 0, 1])
TPF = T([b"", b"a", b"ab", b"b\xff", b"c"], [2, 3], [b"a", b"c"], rsts=[1, 0, 1, 1, 0], shs=[0, 0, 0, 0, 0])
TRS = T([b"aa", b"ab", b"ac", b"ba", b"bb", b"bc"], [3, 3], [b"ad", b"bc"], rsts=[1, 0, 0, 1, 0, 1], shs=[0, 1, 1, 0, 1, 0])
# lengths whose varints take two bytes: 130/131-byte keys (one sharing a byte), 128-byte value, 130/131-byte index keys
_LK = [b"a", b"a" + b"b" * 129, b"c" * 131]
TLG = T(_LK, [2, 1], [_LK[1], _LK[2]], rsts=[1, 0, 1], shs=[0, 1, 0], vls=[128, 0, 2])
TL1 = T([b"kk"], [1], [b"kk"], vls=[128])                  # single entries: a mis-decoded length fails at once
TL2 = T([b"k" * 128], [1], [b"k" * 128], vls=[1])
# symbolic tables
S21 = dict(kls=[1, 1], vls=[1, 1], blk=[1, 1], no_trailer=True)
S22 = dict(kls=[1, 2, 2, 1], vls=[0, 1, 1, 0], blk=[2, 2], sepl=[2, 1], no_trailer=True)


def with_q(t, cq, cq2=None, ctgt=None):
    d = dict(t)
    d["cq"] = list(cq)
    d["cq2"] = list(cq2 if cq2 is not None else cq)
    if ctgt is not None:
        d["ctgt"] = [list(x) for x in ctgt]
    return d


def build(tier, seed):
    qs = []
    quick = tier == "quick"

    def add(tag, spec, h, k, tl=1, t1l=1, witness=False):
        qs.append(rc.rq("hist_%s_%s_%s_t%d" % (tag, KN[k], h, tl), "h_history", spec, ops=h, kind=k,
                        t0l=tl, t1l=t1l, witness=witness))

    # family A
    for h in (["sn", "snn"] if quick else ["sn", "snn", "snnn"]):
        add("S21", S21, h, 0, witness=(h == "sn"))
    if not quick:
        for h in ["sn", "snnn"]:
            for tl in (0, 1, 2):
                add("S22", S22, h, 0, tl=tl)
    # family B, plain iterators
    planB = [
        ("T21", T21, ["nnsn", "nsn", "nnnsn"]),
        ("T22", T22, ["nnnsn", "nsnn", "nnnnnsn"] if quick else ["sn", "nsn", "nnsn", "nnnsn", "nnnnsn", "nnnnnsn", "nnnosnn"]),
        ("T31", T31, ["nnnsnn", "nnosn"] if quick else ["nsn", "nnsn", "nnnsnn", "nnnnsn", "nnosn"]),
        ("TPF", TPF, ["nnnsn"] if quick else ["sn", "nsn", "nnnsn", "nnnnnsn"]),
        ("TRS", TRS, ["nnsn", "nnnnnsn"] if quick else ["sn", "nsn", "nnsn", "nnnsn", "nnnnsn", "nnnnnsn", "nnnnnnsn"]),
    ]
    # long keys: concrete seek targets (a symbolic target over 130-byte keys ran out of 14 GB); values stay symbolic
    for h, tg in ([("nSn", [b"ab"]), ("SnSn", [b"b", b"a"])] if quick else
                  [("nSn", [b"ab"]), ("SnSn", [b"b", b"a"]), ("nnSnn", [b"a"]), ("Snn", [b"ab"]), ("nnnSn", [b"ab"]), ("SSn", [b"c", b"ab"])]):
        qs.append(rc.rq("hist_TLG_iter_%s_%s" % (h, "_".join(t.decode() for t in tg)), "h_history", with_q(TLG, b"a", ctgt=tg), ops=h, kind=0, witness=(h == "nSn")))
    if not quick:
        planB.append(("T32", T32, ["nnnsn", "nnnnnsn", "nnnnnnnsn"]))
    for tag, spec, hs in planB:
        for h in hs:
            for tl in ([1] if quick else [0, 1, 2]):
                add(tag, spec, h, 0, tl=tl, witness=(h == hs[0] and tl == 1))
    # positions reached by concrete seeks (S) instead of nexts
    add("T22cs", with_q(T22, b"b", ctgt=[b"g"]), "Snsn", 0)
    add("T22cs", with_q(T22, b"b", ctgt=[b"z"]), "Snsn", 0)
    if not quick:
        add("T32cs", with_q(T32, b"b", ctgt=[b"k"]), "Snsnn", 0)
        add("TRScs", with_q(TRS, b"a", ctgt=[b"bb"]), "Ssnn", 0)
        add("TRScs", with_q(TRS, b"a", ctgt=[b"ab"]), "Snsnn", 0, tl=2)
    # bounded iterators: concrete creation query, then history with one symbolic seek
    bounded = [
        ("T22get", with_q(T22, b"d"), 1, ["nsn", "sn"]),
        ("T22pfx", with_q(T22, b""), 2, ["nnnsn"]),
        ("TPFpfx", with_q(TPF, b"a"), 2, ["nsnn", "snn"]),
        ("T22rng", with_q(T22, b"c", b"g"), 3, ["nnsnn", "nsn"]),
        ("T31rng", with_q(T31, b"b", b"f"), 3, ["nnnsn"]),
    ]
    if not quick:
        bounded += [
            ("T22get", with_q(T22, b"f"), 1, ["nnsn", "snn"]),
            ("TRSpfx", with_q(TRS, b"a"), 2, ["nnsnn", "nnnsn", "sn"]),
            ("TRSrng", with_q(TRS, b"ab", b"bb"), 3, ["nnnsnn", "sn", "nnnnsn"]),
            ("T32rng", with_q(T32, b"d", b"j"), 3, ["nnnsnn", "nnnnnsn"]),
            ("TPFget", with_q(TPF, b""), 1, ["nsn", "sn"]),
        ]
    for tag, spec, k, hs in bounded:
        for h in hs:
            for tl in ([1] if quick else [1, 2]):
                add(tag, spec, h, k, tl=tl, witness=(h == hs[0] and tl == 1))
    # bounded iterators: a concrete seek beyond the table (iterator runs dry), then a symbolic seek back in range
    dry = [
        ("T22pfxdry", with_q(T22, b"", ctgt=[b"zz"]), 2, ["Ssn", "nSsnn"]),
        ("T22rngdry", with_q(T22, b"c", b"zz", ctgt=[b"zz"]), 3, ["Ssn"]),
        ("TPFpfxdry", with_q(TPF, b"a", ctgt=[b"d"]), 2, ["Ssn"]),
    ]
    if not quick:
        dry += [("T22getdry", with_q(T22, b"f", ctgt=[b"zz"]), 1, ["Ssn", "nSsn"]),
                ("TRSrngdry", with_q(TRS, b"ab", b"zz", ctgt=[b"c"]), 3, ["Ssnn", "nnSsn"]),
                ("T22iterdry", with_q(T22, b"", ctgt=[b"zz"]), 0, ["Ssn", "nnSsn"])]
    for tag, spec, k, hs in dry:
        for h in hs:
            add(tag, spec, h, k, tl=1)
    # two symbolic seeks (thorough only)
    if not quick:
        for tag, spec in (("T21", T21), ("T22", T22)):
            for h in ["nnsnsn", "snsn", "nnnsnsn"]:
                add(tag + "x2", spec, h, 0)
    meta = {
        "functions": rc.FUNCS, "units": ["mtbl/reader.c"] + rc.UNITS,
        "bounds": "tables of <= 3 blocks x <= 3 entries, keys <= 2 bytes (plus one table with 130/131-byte keys, a 128-byte symbolic value and concrete seek targets); histories of <= 9 operations over {next, seek, next on a second iterator of the same reader}; family A: every key/value/separator byte symbolic, one symbolic seek from a fresh iterator; family B: six concrete key tables (incl. empty key, proper prefixes, 0xff, restart runs with sharing, index without restarts), values symbolic, any concrete pre-history, then one (thorough: two) seek(s) whose target bytes (0..2) are symbolic -- i.e. every (position, target) pair of those tables; all four iterator kinds",
        "outside": "larger tables, keys > 2 bytes with symbolic seek targets (ran out of 14 GB at 130 bytes), more than two symbolic seeks in one history (formula size grows ~2x per symbolic seek: 41 M SAT variables for two seeks over symbolic keys); histories over symbolic KEYS with a non-fresh iterator; the reader struct is constructed white-box in the state mtbl_reader_init_fd leaves (init itself: C19/C11 drain harness)",
        "stubs": rc.STUBS,
        "assumptions": ["seek targets on get/prefix/range iterators are at or after the start of the iterator's range (the property's precondition)",
                        "separators lie in the legal interval [last key of block, first key of next block)"],
        "exhaustive": False,
    }
    return qs, meta
