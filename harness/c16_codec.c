/* C16: varint and fixed-width codecs, full width.
 * Real code: mtbl/varint.c, mtbl/fixed.c (linked as units). */
#include <stdlib.h>
#include <string.h>
#include "verif.h"
#include "mtbl-private.h"

#ifndef OFF
#define OFF 0
#endif
#ifndef LEN
#define LEN 10
#endif

/* reference: number of base-128 digits of v (>= 1) */
static unsigned ref_len(uint64_t v)
{
	unsigned n = 1;
	for (unsigned i = 1; i < 10; i++)
		if ((v >> (7 * i)) != 0)
			n = i + 1;
	return n;
}

/* standard little-endian base-128 form of v in exactly n bytes */
static void check_standard_form(const uint8_t *b, size_t n, uint64_t v)
{
	V_ASSERT(n >= 1 && n <= 10, "varint: 1..10 bytes");
	V_ASSERT(n == ref_len(v), "varint: byte count is the number of base-128 digits");
	for (size_t i = 0; i < 10; i++) {
		if (i < n) {
			V_ASSERT((b[i] & 0x7f) == ((v >> (7 * i)) & 0x7f), "varint: digit i is bits 7i..7i+6");
			V_ASSERT(((b[i] & 0x80) != 0) == (i + 1 < n), "varint: continuation bit iff more digits follow");
		}
	}
	V_ASSERT(n == 1 || b[n - 1] != 0, "varint: no trailing zero digit (standard form)");
}

void h_enc64(void)
{
	uint64_t v = vn_u64();
	unsigned n_ref = ref_len(v);
	/* destination is exactly as long as the standard form: an over-long
	 * encoding is a bounds violation */
	uint8_t *buf = malloc(n_ref);
	V_ASSUME(buf != NULL);
	size_t n = mtbl_varint_encode64(buf, v);
	check_standard_form(buf, n, v);
	V_ASSERT(mtbl_varint_length(v) == n, "varint_length == bytes written");
	V_ASSERT(mtbl_varint_length_packed(buf, n) == n, "length_packed == bytes written");
	uint64_t back = ~v;
	size_t m = mtbl_varint_decode64(buf, &back);
	V_ASSERT(m == n, "decode64 consumes what encode64 wrote");
	V_ASSERT(back == v, "decode64(encode64(v)) == v");
	free(buf);
	V_WITNESS();
}

void h_enc32(void)
{
	uint32_t v = vn_u32();
	unsigned n_ref = ref_len(v);
	uint8_t *buf = malloc(n_ref);
	uint8_t *buf64 = malloc(n_ref);
	V_ASSUME(buf != NULL && buf64 != NULL);
	size_t n = mtbl_varint_encode32(buf, v);
	check_standard_form(buf, n, v);
	V_ASSERT(n <= 5, "varint32: at most 5 bytes");
	size_t n64 = mtbl_varint_encode64(buf64, v);
	V_ASSERT(n64 == n, "encode32 and encode64 agree on length");
	for (size_t i = 0; i < 5; i++)
		if (i < n)
			V_ASSERT(buf[i] == buf64[i], "encode32 and encode64 agree bytewise");
	V_ASSERT(mtbl_varint_length(v) == n, "varint_length == bytes written (32)");
	V_ASSERT(mtbl_varint_length_packed(buf, n) == n, "length_packed == bytes written (32)");
	uint32_t back = ~v;
	size_t m = mtbl_varint_decode32(buf, &back);
	V_ASSERT(m == n && back == v, "decode32(encode32(v)) == v");
	uint64_t back64 = 0;
	m = mtbl_varint_decode64(buf, &back64);
	V_ASSERT(m == n && back64 == v, "decode64(encode32(v)) == v");
	free(buf);
	free(buf64);
	V_WITNESS();
}

/* decode on arbitrary bytes.  TERM = index of the first byte without the
 * continuation bit (shape), or -1 for "none within MAXB bytes".  The buffer is
 * allocated exactly TERM+1 (resp. MAXB) bytes long. */
#ifndef TERM
#define TERM 0
#endif
static void dec_arbitrary(int is32)
{
	const int maxb = is32 ? 5 : 10;
	const int term = TERM;
	size_t len = (term >= 0) ? (size_t)term + 1 : (size_t)maxb;
	uint8_t *buf = malloc(len);
	V_ASSUME(buf != NULL);
	uint64_t ref = 0;
	for (size_t i = 0; i < len; i++) {
		uint8_t b = vn_u8();
		if (term >= 0 && (int)i == term)
			b &= 0x7f;
		else
			b |= 0x80;
		buf[i] = b;
		if (7 * i < 64)
			ref |= (uint64_t)(b & 0x7f) << (7 * i);
	}
	if (is32) {
		uint32_t v = 0xdeadbeef;
		size_t n = mtbl_varint_decode32(buf, &v);
		if (term >= 0) {
			V_ASSERT(n == (size_t)term + 1, "decode32: consumes up to the terminator");
			V_ASSERT(v == (uint32_t)ref, "decode32: value is the base-128 number (mod 2^32)");
		} else {
			V_ASSERT(n == 0 && v == 0, "decode32: no terminator in 5 bytes -> 0 and value 0");
		}
	} else {
		uint64_t v = 0xdeadbeefULL;
		size_t n = mtbl_varint_decode64(buf, &v);
		if (term >= 0) {
			V_ASSERT(n == (size_t)term + 1, "decode64: consumes up to the terminator");
			V_ASSERT(v == ref, "decode64: value is the base-128 number (mod 2^64)");
		} else {
			V_ASSERT(n == 0 && v == 0, "decode64: no terminator in 10 bytes -> 0 and value 0");
		}
	}
	free(buf);
	V_WITNESS();
}
void h_dec64_arbitrary(void) { dec_arbitrary(0); }
void h_dec32_arbitrary(void) { dec_arbitrary(1); }

/* length_packed on an arbitrary buffer of exactly LEN bytes (0..11) */
void h_length_packed(void)
{
	uint8_t *buf = malloc(LEN ? LEN : 1);
	V_ASSUME(buf != NULL);
	int first = -1;
	for (size_t i = 0; i < LEN; i++) {
		buf[i] = vn_u8();
		if (first < 0 && (buf[i] & 0x80) == 0)
			first = (int)i;
	}
	unsigned r = mtbl_varint_length_packed(buf, LEN);
	if (first >= 0)
		V_ASSERT(r == (unsigned)first + 1, "length_packed: index of first terminator + 1");
	else
		V_ASSERT(r == 0, "length_packed: 0 when truncated");
	free(buf);
	V_WITNESS();
}

/* fixed-width codecs at address offset OFF (0..7) inside an 8-aligned buffer */
void h_fixed(void)
{
	uint64_t store[4];			/* 32 bytes, 8-aligned */
	uint8_t *base = (uint8_t *)store;
	uint8_t before[32];
	for (int i = 0; i < 32; i++)
		before[i] = base[i] = vn_u8();
	uint8_t *p = base + 8 + OFF;

	/* decode of arbitrary bytes is the little-endian number */
	uint32_t d32 = mtbl_fixed_decode32(p);
	uint64_t d64 = mtbl_fixed_decode64(p);
	uint64_t r = 0;
	for (int i = 7; i >= 0; i--)
		r = (r << 8) | p[i];
	V_ASSERT(d64 == r, "fixed_decode64 is little-endian");
	V_ASSERT(d32 == (uint32_t)r, "fixed_decode32 is little-endian");

	uint32_t v32 = vn_u32();
	size_t n = mtbl_fixed_encode32(p, v32);
	V_ASSERT(n == 4, "fixed_encode32 writes 4 bytes");
	for (int i = 0; i < 4; i++)
		V_ASSERT(p[i] == ((v32 >> (8 * i)) & 0xff), "fixed_encode32 byte order");
	for (int i = 0; i < 32; i++)
		if (i < 8 + OFF || i >= 8 + OFF + 4)
			V_ASSERT(base[i] == before[i], "fixed_encode32 leaves neighbours alone");
	V_ASSERT(mtbl_fixed_decode32(p) == v32, "fixed 32 inverse");

	uint64_t v64 = vn_u64();
	n = mtbl_fixed_encode64(p, v64);
	V_ASSERT(n == 8, "fixed_encode64 writes 8 bytes");
	for (int i = 0; i < 8; i++)
		V_ASSERT(p[i] == ((v64 >> (8 * i)) & 0xff), "fixed_encode64 byte order");
	for (int i = 0; i < 32; i++)
		if (i < 8 + OFF || i >= 8 + OFF + 8)
			V_ASSERT(base[i] == before[i], "fixed_encode64 leaves neighbours alone");
	V_ASSERT(mtbl_fixed_decode64(p) == v64, "fixed 64 inverse");
	V_WITNESS();
}

V_MAIN(V_E(h_enc64), V_E(h_enc32), V_E(h_dec64_arbitrary), V_E(h_dec32_arbitrary),
       V_E(h_length_packed), V_E(h_fixed))
