/* Block level: mtbl/block_builder.c + mtbl/block.c (both #included, so the
 * builder can be constructed with small buffer capacities -- DESIGN.md 2.4).
 * Entries: lengths are the shape, bytes are symbolic. */
#include <stdlib.h>
#include <string.h>
#include "entries.h"

#include "mtbl/block_builder.c"
#include "mtbl/block.c"

#ifndef RI
#define RI 2		/* restart interval */
#endif
#ifndef BUFCAP
#define BUFCAP 8	/* initial capacity of the builder's buffer: growth path is exercised */
#endif
#ifndef P
#define P 0		/* iterator position before the seek: 0 fresh, k = on entry k-1, N+1 exhausted */
#endif
#ifndef TL
#define TL 1		/* target length */
#endif

/* same as block_builder_init() except for the capacity hints (64 KiB / 256 / 64
 * there); the hints are performance parameters -- h_builder_init checks the
 * real constructor's initial state */
static struct block_builder *small_builder(size_t ri)
{
	struct block_builder *b = my_calloc(1, sizeof(*b));
	b->block_restart_interval = ri;
	b->buf = ubuf_init(BUFCAP);
	b->last_key = ubuf_init(KLMAX);	/* no growth of the key buffer: growth is exercised on buf via BUFCAP */
	b->restarts = uint64_vec_init(1);
	uint64_vec_add(b->restarts, 0);
	return b;
}

static struct block *build_block(uint8_t **raw, size_t *rawsz)
{
	struct block_builder *b = small_builder(RI);
	V_ASSERT(block_builder_empty(b), "builder starts empty");
	for (size_t i = 0; i < N; i++) {
		block_builder_add(b, E_key[i], E_kl[i], E_val[i], E_vl[i]);
		V_ASSERT(!block_builder_empty(b), "builder non-empty after add");
	}
	size_t est = block_builder_current_size_estimate(b);
	block_builder_finish(b, raw, rawsz);
	V_ASSERT(*rawsz == est, "C09: size estimate equals the finished block size");
	block_builder_destroy(&b);
	V_ASSERT(b == NULL, "destroy clears handle");
	return block_init(*raw, *rawsz, true);
}

static void expect_entry(struct block_iter *bi, size_t i)
{
	const uint8_t *k, *v;
	size_t kl, vl;
	V_ASSERT(block_iter_valid(bi), "iterator valid while entries remain");
	bool ok = block_iter_get(bi, &k, &kl, &v, &vl);
	V_ASSERT(ok, "get succeeds on a valid iterator");
	V_ASSERT(v_eq(k, kl, E_key[i], E_kl[i]), "C01: key read back equals key added");
	V_ASSERT(v_eq(v, vl, E_val[i], E_vl[i]), "C01: value read back equals value added");
}

/* add*; finish; read everything back */
void h_block_roundtrip(void)
{
	verif_stop_is_violation = 1;
#ifdef KT
	entries_init_template();	/* long keys: order and shared-prefix lengths fixed by the shape, other bytes symbolic */
#else
	entries_init_sorted();
#endif
	uint8_t *raw; size_t rawsz;
	struct block *blk = build_block(&raw, &rawsz);
	V_ASSERT(blk->size == rawsz && rawsz >= 8, "block accepted by block_init");
	struct block_iter *bi = block_iter_init(blk);
	V_ASSERT(!block_iter_valid(bi), "fresh iterator is not positioned");
	block_iter_seek_to_first(bi);
	for (size_t i = 0; i < N; i++) {
		expect_entry(bi, i);
		bool more = block_iter_next(bi);
		V_ASSERT(more == (i + 1 < N), "C01: next reports exactly the remaining entries");
	}
	V_ASSERT(!block_iter_valid(bi), "C01: nothing after the last entry");
	V_ASSERT(!block_iter_next(bi), "next stays false at the end");
#ifdef WITH_PREV
	/* last / prev walk (not used by the reader; block.c API only) */
	if (N > 0) {
		block_iter_seek_to_last(bi);
		expect_entry(bi, N - 1);
		for (size_t i = N - 1; i-- > 0;) {
			block_iter_prev(bi);
			expect_entry(bi, i);
		}
		block_iter_prev(bi);
		V_ASSERT(!block_iter_valid(bi), "prev before the first entry invalidates");
	}
#endif
	block_iter_destroy(&bi);
	block_destroy(&blk);
	V_WITNESS();
}

/* from position P, seek(t) for every target t of length TL, then drain */
void h_block_seek(void)
{
	verif_stop_is_violation = 1;
	entries_init_sorted();
	uint8_t t[TL ? TL : 1];
	vn_bytes(t, TL);
	uint8_t *raw; size_t rawsz;
	struct block *blk = build_block(&raw, &rawsz);
	struct block_iter *bi = block_iter_init(blk);
	if (P >= 1) {
		block_iter_seek_to_first(bi);
		for (size_t i = 1; i < P; i++)
			block_iter_next(bi);
	}
	if (P >= 1 && P <= N)
		expect_entry(bi, P - 1);
#ifdef P2SEEK
	/* position reached by an earlier seek instead of by next calls */
	{
		uint8_t t0[1] = { vn_u8() };
		block_iter_seek(bi, t0, 1);
	}
#endif
	block_iter_seek(bi, t, TL);
	size_t idx = entries_lower_bound(t, TL);
	for (size_t i = 0; i < N; i++) {
		if (i >= idx) {
			expect_entry(bi, i);
			block_iter_next(bi);
		}
	}
	V_ASSERT(!block_iter_valid(bi), "C03: after the entries >= target the block iterator ends");
	block_iter_destroy(&bi);
	block_destroy(&blk);
	V_WITNESS();
}

/* the real constructor: initial state only (no symbolic write into 64 KiB) */
void h_builder_init(void)
{
	size_t ri = (size_t)vn_range(1, 1u << 20);
	struct block_builder *b = block_builder_init(ri);
	V_ASSERT(b->block_restart_interval == ri, "restart interval stored");
	V_ASSERT(block_builder_empty(b) && ubuf_size(b->last_key) == 0, "empty at start");
	V_ASSERT(uint64_vec_size(b->restarts) == 1 && uint64_vec_value(b->restarts, 0) == 0, "restart[0] = 0");
	V_ASSERT(!b->finished && b->counter == 0, "counters clear");
	V_ASSERT(block_builder_current_size_estimate(b) == 8, "empty block is 8 bytes");
	block_builder_destroy(&b);
	V_WITNESS();
}

/* decode_entry() alone, for EVERY triple of 32-bit lengths: the header is laid out by a reference
 * LEB128 encoder (independent of varint.c), followed by exactly non_shared + value_length bytes
 * (+ 0..2 spare); the real decoder must return the three lengths and the position right after
 * the header.  The entry's payload is never touched, so the buffer has a symbolic size. */
static size_t ref_put_varint32(uint8_t *o, uint32_t v)
{
	size_t n = 0;
	for (int i = 0; i < 5; i++) {
		uint8_t b = v & 0x7f;
		v >>= 7;
		if (v) { o[n++] = b | 0x80; } else { o[n++] = b; break; }
	}
	return n;
}
void h_decode_entry(void)
{
	verif_stop_is_violation = 1;
	uint32_t LS = vn_u32(), LN = vn_u32(), LV = vn_u32();
	uint8_t hdr[15];
	size_t h = 0;
	h += ref_put_varint32(hdr + h, LS);
	h += ref_put_varint32(hdr + h, LN);
	h += ref_put_varint32(hdr + h, LV);
	size_t total = h + (size_t)LN + (size_t)LV + (size_t)vn_range(0, 2);
	uint8_t *buf = malloc(total);
	V_ASSUME(buf != NULL);
	for (size_t i = 0; i < 15; i++)
		if (i < h)
			buf[i] = hdr[i];
	uint32_t s = 0, n = 0, v = 0;
	uint8_t *q = decode_entry(buf, buf + total, &s, &n, &v);
	V_ASSERT(q != NULL, "C01: a well-formed entry header is refused");
	V_ASSERT(s == LS && n == LN && v == LV, "C01: decode_entry returns the three lengths the header encodes (every 32-bit value)");
	V_ASSERT(q == buf + h, "C01: decode_entry returns the position right after the header");
	free(buf);
	V_WITNESS();
}

V_MAIN(V_E(h_block_roundtrip), V_E(h_block_seek), V_E(h_builder_init), V_E(h_decode_entry))
