/* Shape-parameterised table content: N entries whose key/value LENGTHS are
 * compile-time constants (shape) and whose BYTES are solver variables.
 *   -DN=3 -DKLS={1,2,2} -DVLS={0,1,1}
 * Keys are assumed strictly increasing in byte-string order (v_cmp). */
#ifndef ENTRIES_H
#define ENTRIES_H
#include "verif.h"

#ifndef N
#define N 2
#endif
#ifndef KLS
#define KLS {1, 1}
#endif
#ifndef VLS
#define VLS {1, 1}
#endif
#ifndef KLMAX
#define KLMAX 4
#endif
#ifndef VLMAX
#define VLMAX 4
#endif

static const size_t E_kl[N ? N : 1] = KLS;
static const size_t E_vl[N ? N : 1] = VLS;
static uint8_t E_key[N ? N : 1][KLMAX];
static uint8_t E_val[N ? N : 1][VLMAX];

/* fill with symbolic bytes; require strictly increasing keys */
static void entries_init_sorted(void)
{
	for (size_t i = 0; i < N; i++) {
		for (size_t j = 0; j < KLMAX; j++)
			E_key[i][j] = (j < E_kl[i]) ? vn_u8() : 0;
		for (size_t j = 0; j < VLMAX; j++)
			E_val[i][j] = (j < E_vl[i]) ? vn_u8() : 0;
	}
	for (size_t i = 0; i + 1 < N; i++)
		V_ASSUME(v_cmp(E_key[i], E_kl[i], E_key[i + 1], E_kl[i + 1]) < 0);
}

/* Templated keys (shape KT): per byte  0..255 = that concrete value, 256 = fresh symbolic byte,
 * 257 = the same byte as the previous key at this position (identical solver symbol).
 * The Python shape code lays templates out so that each adjacent pair of keys is decided at a
 * CONCRETE byte (or by one key being a proper prefix): order and common-prefix lengths are then
 * constants for CBMC's symex (comparisons of identical symbols and of constants fold), while
 * all other key bytes and all value bytes stay symbolic.  See DESIGN.md 2.2. */
#ifdef KT
static const uint16_t E_kt[N ? N : 1][KLMAX] = KT;
static void entries_init_template(void)
{
	for (size_t i = 0; i < N; i++) {
		for (size_t j = 0; j < KLMAX; j++) {
			if (j >= E_kl[i])
				E_key[i][j] = 0;
			else if (E_kt[i][j] == 257 && i > 0)
				E_key[i][j] = E_key[i - 1][j];
			else if (E_kt[i][j] == 256)
				E_key[i][j] = vn_u8();
			else
				E_key[i][j] = (uint8_t)E_kt[i][j];
		}
		for (size_t j = 0; j < VLMAX; j++)
			E_val[i][j] = (j < E_vl[i]) ? vn_u8() : 0;
	}
	/* by construction; checked anyway (folds to true) */
	for (size_t i = 0; i + 1 < N; i++)
		V_ASSUME(v_cmp(E_key[i], E_kl[i], E_key[i + 1], E_kl[i + 1]) < 0);
}
#endif

/* arbitrary (unordered) content */
static void entries_init_any(void)
{
	for (size_t i = 0; i < N; i++) {
		for (size_t j = 0; j < KLMAX; j++)
			E_key[i][j] = (j < E_kl[i]) ? vn_u8() : 0;
		for (size_t j = 0; j < VLMAX; j++)
			E_val[i][j] = (j < E_vl[i]) ? vn_u8() : 0;
	}
}

/* index of the first entry with key >= t, or N */
static size_t entries_lower_bound(const uint8_t *t, size_t tl)
{
	size_t idx = N;
	for (size_t i = N; i-- > 0;)
		if (v_cmp(E_key[i], E_kl[i], t, tl) >= 0)
			idx = i;
	return idx;
}
#endif
