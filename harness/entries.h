/* Shape-parameterised table content: N entries whose key/value LENGTHS are
 * compile-time constants (shape) and whose BYTES are solver variables.
 *   -DN=3 -DKLS={1,2,2} -DVLS={0,1,1}
 * Keys are assumed strictly increasing in byte-string order (v_cmp). */
#ifndef ENTRIES_H
#define ENTRIES_H
#include "verif.h"

#ifndef N
#define N 2
#endif
#ifndef KLS
#define KLS {1, 1}
#endif
#ifndef VLS
#define VLS {1, 1}
#endif
#ifndef KLMAX
#define KLMAX 4
#endif
#ifndef VLMAX
#define VLMAX 4
#endif

static const size_t E_kl[N ? N : 1] = KLS;
static const size_t E_vl[N ? N : 1] = VLS;
static uint8_t E_key[N ? N : 1][KLMAX];
static uint8_t E_val[N ? N : 1][VLMAX];

/* fill with symbolic bytes; require strictly increasing keys */
static void entries_init_sorted(void)
{
	for (size_t i = 0; i < N; i++) {
		for (size_t j = 0; j < KLMAX; j++)
			E_key[i][j] = (j < E_kl[i]) ? vn_u8() : 0;
		for (size_t j = 0; j < VLMAX; j++)
			E_val[i][j] = (j < E_vl[i]) ? vn_u8() : 0;
	}
	for (size_t i = 0; i + 1 < N; i++)
		V_ASSUME(v_cmp(E_key[i], E_kl[i], E_key[i + 1], E_kl[i + 1]) < 0);
}

/* arbitrary (unordered) content */
static void entries_init_any(void)
{
	for (size_t i = 0; i < N; i++) {
		for (size_t j = 0; j < KLMAX; j++)
			E_key[i][j] = (j < E_kl[i]) ? vn_u8() : 0;
		for (size_t j = 0; j < VLMAX; j++)
			E_val[i][j] = (j < E_vl[i]) ? vn_u8() : 0;
	}
}

/* index of the first entry with key >= t, or N */
static size_t entries_lower_bound(const uint8_t *t, size_t tl)
{
	size_t idx = N;
	for (size_t i = N; i-- > 0;)
		if (v_cmp(E_key[i], E_kl[i], t, tl) >= 0)
			idx = i;
	return idx;
}
#endif
