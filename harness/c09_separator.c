/* C09: bytes_shortest_separator (mtbl/bytes.h) on its own, start and limit fully symbolic.
 * The writer calls it with start = last key of the block, limit = first key of the next
 * block, start < limit; the result r (in place of start) becomes the index key and must
 * satisfy  start <= r < limit  (and is never longer than start). */
#include <stdlib.h>
#include "verif.h"
#include "mtbl-private.h"
#include "mtbl/bytes.h"
#ifndef SL
#define SL 3
#endif
#ifndef LL
#define LL 3
#endif
void h_separator(void)
{
	verif_stop_is_violation = 1;	/* its own assert(r < limit) failing would abort a valid add */
	uint8_t start[SL ? SL : 1], limit[LL ? LL : 1];
	vn_bytes(start, SL);
	vn_bytes(limit, LL);
	V_ASSUME(v_cmp(start, SL, limit, LL) < 0);
	ubuf *u = ubuf_init(8);
	ubuf_append(u, start, SL);
	bytes_shortest_separator(u, limit, LL);
	V_ASSERT(ubuf_size(u) <= SL, "C09: separator longer than the block's last key");
	V_ASSERT(v_cmp(start, SL, ubuf_data(u), ubuf_size(u)) <= 0, "C09: index key sorts below the last key of its block");
	V_ASSERT(v_cmp(ubuf_data(u), ubuf_size(u), limit, LL) < 0, "C09: index key not below the first key of the next block");
	ubuf_destroy(&u);
	V_WITNESS();
}
V_MAIN(V_E(h_separator))
