/* C07/C18 (second harness): libmy/my_fileset.c itself (#included) -- setfile change detection,
 * load / keep / unload of entries by name, destroy.
 * Shape (concrete): per generation the list of setfile lines (indices into a small line table:
 * "a", "b", "/d/c", "/d/a"; REPEATS ALLOWED; lines 0 and 3 spell the same file relatively and
 * absolutely) and which files exist.
 * Solver variables: whether each generation's setfile differs in inode / mtime from the previous.
 * Environment: stat(2), fopen/getline/fclose hand out the current generation's lines;
 * qsort = insertion sort, bsearch = any matching element; dirname fixed.
 * The user callbacks hand out a FRESH object per load (as fileset.c's fs_load does: a new reader)
 * and record destruction: destroying an object twice, destroying an unknown object, an entry whose
 * object is dead, and objects alive after my_fileset_destroy are violations. */
#include <stdio.h>
#include <stdlib.h>
#include <string.h>
#include <sys/stat.h>
#include <libgen.h>
#include "verif.h"

#define NNAMES 3
#define MAXL 4
#ifndef NG
#define NG 2
#endif
#ifndef GENS
#define GENS { {0, 0, -1, -1}, {0, 0, 1, -1} }	/* line lists, -1 = end */
#endif
#ifndef EXISTS
#define EXISTS { 7, 7 }				/* bit i: file i exists at that generation */
#endif
static const int G_list[NG][MAXL] = GENS;
static const unsigned G_exists[NG] = EXISTS;
static unsigned long G_ino[NG], G_mtime[NG];
static int G_gen;
#define NLINES 4
static const char *const L_text[NLINES] = { "a\n", "b\n", "/d/c\n", "/d/a\n" };	/* line 3: file a again, spelled absolutely */
static const int L_name[NLINES] = { 0, 1, 2, 0 };
static const char *const L_path[NNAMES] = { "/d/a", "/d/b", "/d/c" };

static int name_index(const char *p)
{
	for (int i = 0; i < NNAMES; i++)
		if (strcmp(p, L_path[i]) == 0) return i;
	return -1;
}
static int verif_stat(const char *path, struct stat *sb)
{
	if (strcmp(path, "/d/setfile") == 0) {
		sb->st_ino = G_ino[G_gen];
		sb->st_mtime = (time_t)G_mtime[G_gen];
		return 0;
	}
	int i = name_index(path);
	if (i >= 0 && ((G_exists[G_gen] >> i) & 1)) return 0;
	return -1;
}
static int fp_line, fp_open, n_fopen;
static FILE *verif_fopen(const char *p, const char *m) { (void)p; (void)m; fp_line = 0; fp_open++; n_fopen++; return (FILE *)&fp_line; }
static int verif_fclose(FILE *f) { (void)f; fp_open--; return 0; }
static char linebuf[16];
static ssize_t verif_getline(char **line, size_t *n, FILE *f)
{
	(void)f;
	if (fp_line >= MAXL || G_list[G_gen][fp_line] < 0) return -1;
	const char *t = L_text[G_list[G_gen][fp_line++]];
	size_t l = strlen(t);
	for (size_t i = 0; i <= l; i++) linebuf[i] = t[i];
	*line = linebuf;
	*n = sizeof(linebuf);
	return (ssize_t)l;
}
static char *verif_dirname(char *p) { (void)p; return (char *)"/d"; }
static void verif_qsort(void *base, size_t n, size_t size, int (*cmp)(const void *, const void *))
{
	void **a = base;
	(void)size;
	for (size_t i = 1; i < MAXL; i++) {
		if (i >= n) break;
		for (size_t j = i; j > 0; j--) {
			if (cmp(&a[j - 1], &a[j]) > 0) { void *t = a[j - 1]; a[j - 1] = a[j]; a[j] = t; }
			else break;
		}
	}
}
static void *verif_bsearch(const void *key, const void *base, size_t n, size_t size, int (*cmp)(const void *, const void *))
{
	/* contract on a sorted array: SOME matching element (the first here), or NULL if there is none;
	 * on an unsorted array bsearch(3) may miss elements: that is a violation of its precondition */
	const char *b = base;
	for (size_t i = 0; i + 1 < MAXL; i++)
		if (i + 1 < n)
			V_ASSERT(cmp(b + i * size, b + (i + 1) * size) <= 0, "C07: bsearch over entries that are not sorted by name (lookups of kept files may miss: reload, leak)");
	for (size_t i = 0; i < MAXL; i++)
		if (i < n && cmp(key, b + i * size) == 0) return (void *)(b + i * size);
	return NULL;
}
#define stat(p, sb) verif_stat((p), (sb))
#define fopen verif_fopen
#define fclose verif_fclose
#define getline verif_getline
#define dirname verif_dirname
#define qsort verif_qsort
#define bsearch verif_bsearch
#define fprintf(...) ((void)0)
#define free(p) verif_free_line(p)
static void verif_free_line(void *p);
#include "libmy/my_fileset.c"
#undef free
static void verif_free_line(void *p) { if (p != (void *)linebuf) free(p); }	/* getline's buffer is ours */

/* objects handed out by load */
#define MAXOBJ 12
static struct { int name; int alive; } O[MAXOBJ];
static int n_obj;
static void *cb_load(struct my_fileset *fs, const char *fname)
{
	(void)fs;
	int i = name_index(fname);
	V_ASSERT(i >= 0, "C07: load asked for a name the setfile does not list");
	V_ASSERT(n_obj < MAXOBJ, "harness: object table full");
	O[n_obj].name = i;
	O[n_obj].alive = 1;
	return &O[n_obj++];
}
static void cb_unload(struct my_fileset *fs, const char *fname, void *ptr)
{
	(void)fs;
	int k = -1;
	for (int j = 0; j < MAXOBJ; j++) if (ptr == (void *)&O[j]) k = j;
	V_ASSERT(k >= 0 && k < n_obj, "C07/C18: unload called with an object that was never loaded");
	V_ASSERT(O[k].alive, "C18: the same loaded object (a reader, in fileset.c) is unloaded twice -- double free");
	V_ASSERT(name_index(fname) == O[k].name, "C07: unload names a different file than the object was loaded for");
	O[k].alive = 0;
}

static unsigned want_set(int g)
{
	unsigned s = 0;
	for (int i = 0; i < MAXL; i++) {
		if (G_list[g][i] < 0) break;
		if ((G_exists[g] >> L_name[G_list[g][i]]) & 1) s |= 1u << L_name[G_list[g][i]];
	}
	return s;
}
static void check_view(struct my_fileset *fs, unsigned want)
{
	unsigned seen = 0;
	const char *fn; void *ptr;
	const char *prev = NULL;
	void *ptrs[MAXL + 1];
	size_t n = 0;
	for (size_t i = 0; i < MAXL + 1; i++) {
		if (!my_fileset_get(fs, i, &fn, &ptr)) break;
		int k = name_index(fn);
		V_ASSERT(k >= 0, "C07: entry with a name the setfile does not list");
		int o = -1;
		for (int j = 0; j < MAXOBJ; j++) if (ptr == (void *)&O[j]) o = j;
		V_ASSERT(o >= 0 && O[o].alive && O[o].name == k, "C07: an entry of the current view refers to an object that is not a live object loaded for that name");
		for (size_t j = 0; j < n; j++)
			V_ASSERT(ptrs[j] != ptr, "C07/C18: two entries of the view share one loaded object (it will be destroyed twice)");
		ptrs[n++] = ptr;
		seen |= 1u << k;
		if (prev) V_ASSERT(strcmp(prev, fn) <= 0, "C07: entries not sorted by name");
		prev = fn;
	}
	V_ASSERT(seen == want, "C07: the loaded set is not exactly the files named in the setfile that exist");
}

void h_myfileset(void)
{
	verif_stop_is_violation = 1;
	bool changed[NG];
	G_ino[0] = 1; G_mtime[0] = 1; changed[0] = true;
	for (int g = 1; g < NG; g++) {
		changed[g] = vn_bool();
		bool by_ino = vn_bool();
		G_ino[g] = G_ino[g - 1] + ((changed[g] && by_ino) ? 1 : 0);
		G_mtime[g] = G_mtime[g - 1] + ((changed[g] && !by_ino) ? 1 : 0);
	}
	G_gen = 0;
	struct my_fileset *fs = my_fileset_init("/d/setfile", cb_load, cb_unload, NULL);
	int cur = -1;
	for (int g = 0; g < NG; g++) {
		G_gen = g;
		int opens = n_fopen, objs = n_obj;
		my_fileset_reload(fs);
		/* a changed setfile MUST be re-read; an unchanged one need not be (my_fileset.c does not), but
		 * an implementation that re-reads it anyway also satisfies C07: then this generation's
		 * existence pattern is the reference */
		if (changed[g] || n_fopen > opens) cur = g;
		else
			V_ASSERT(n_obj == objs, "C07: nothing may be loaded when the setfile was not read");
		check_view(fs, want_set(cur));
		V_ASSERT(fp_open == 0, "C18: setfile left open");
	}
	my_fileset_destroy(&fs);
	V_ASSERT(fs == NULL, "destroy clears handle");
	for (int j = 0; j < MAXOBJ; j++)
		V_ASSERT(j >= n_obj || !O[j].alive, "C18: an object loaded by the fileset is still alive after my_fileset_destroy");
	V_WITNESS();
}
V_MAIN(V_E(h_myfileset))
