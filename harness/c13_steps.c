/* C13 layer B: mtbl/threadpool.c's protocol steps as INDUCTIVE STEPS.
 *
 * Each query builds a small pre-state that satisfies the data-structure invariant (result queue of
 * RQN threads, idle list of IDLEN threads, counters consistent; all scalar fields symbolic where the
 * invariant leaves them free), runs ONE protocol step of the real code (pthread mutex = lock flag,
 * pthread_create = record, pthread_cond_wait = "would block": release the mutex and return), and
 * asserts the step's contract and the invariant on the post-state:
 *
 *   INV_rq:   head -> ... -> last is a NULL-terminated list of the queued threads and
 *             ptail == (empty ? &head : &last->next); nthreads >= length
 *   INV_pool: head is a NULL-terminated list of idle threads, each with cb == NULL, res == NULL,
 *             !running; count <= max
 *
 * One step from every invariant-satisfying state covers histories of any length IF the invariant
 * is inductive and strong enough; it says nothing about interleavings INSIDE a step, lost
 * wake-ups or data races (layer C / C14: outside). */
#include <pthread.h>
#include <stdlib.h>
#include "verif.h"

#ifndef RQN
#define RQN 1		/* threads in the result queue before the step */
#endif
#ifndef IDLEN
#define IDLEN 1		/* idle threads in the pool before the step */
#endif
#ifndef ORDERED
#define ORDERED 1
#endif

static int v_blocked, v_lock_error, v_locks_held, v_created;
static int v_lock(pthread_mutex_t *m) { int *f = (int *)m; if (*f) v_lock_error = 1; *f = 1; v_locks_held++; return 0; }
static int v_unlock(pthread_mutex_t *m) { int *f = (int *)m; if (!*f) v_lock_error = 1; *f = 0; v_locks_held--; return 0; }
static int v_mutex_init(pthread_mutex_t *m) { *(int *)m = 0; return 0; }
static void *v_created_arg;
static int v_create(pthread_t *t, void *arg) { *t = (pthread_t)1; v_created++; v_created_arg = arg; return 0; }

#define pthread_mutex_init(m, a) v_mutex_init(m)
#define pthread_mutex_destroy(m) 0
#define pthread_cond_init(c, a) 0
#define pthread_cond_destroy(c) 0
/* wake-up discipline: a step that makes a waited-for condition true must signal (or broadcast) the
 * condition variable its waiter sleeps on.  Whether the mutex is held while signalling is not
 * demanded (POSIX allows either). */
static void *v_sig[8];
static int v_nsig;
static int v_signal(pthread_cond_t *c)
{
	if (v_nsig < 8) v_sig[v_nsig] = c;
	v_nsig++;
	return 0;
}
static bool signalled(void *c)
{
	bool r = false;
	for (int i = 0; i < 8; i++) if (i < v_nsig && v_sig[i] == c) r = true;
	return r;
}
#define pthread_cond_signal(c) v_signal(c)
#define pthread_cond_broadcast(c) v_signal(c)
#define pthread_mutex_lock(m) v_lock(m)
#define pthread_mutex_unlock(m) v_unlock(m)
#define pthread_create(t, a, f, x) v_create((t), (x))
static int v_join(pthread_t t);
#define pthread_join(t, r) v_join(t)
/* a wait releases the mutex, records "this step blocked", lets the environment make the awaited
 * condition true (what that is depends on the step), and re-acquires the mutex */
static int v_spurious, v_env_acted;
static int v_block_mode;		/* 0: blocking is a violation in this step */
static void v_env_wakes(void);
static int v_wait(pthread_mutex_t *m)
{
	v_unlock(m);
	v_blocked++;
	V_ASSERT(v_block_mode != 0, "C13: the step blocks although its enabling condition holds (a thread / a finished result is available)");
	V_ASSERT(v_blocked <= 1 + v_spurious, "C13: woken with the awaited condition true, the step waits again");
	/* one spurious wake-up per step is possible: the wait returns although nobody made the
	 * condition true; the code must re-test its condition and wait again */
	if (v_spurious == 0 && v_env_acted == 0 && vn_bool())
		v_spurious = 1;
	else {
		v_env_acted++;
		v_env_wakes();
	}
	v_lock(m);
	return 0;
}
#define pthread_cond_wait(c, m) v_wait(m)
#include "mtbl/threadpool.c"
#undef pthread_cond_wait

static struct result_handler RH;
static int cb_calls;
static int tokens[6];
static void *job_fn(void *a) { cb_calls++; return a; }

static struct thread *g_me, *g_returned;
static struct thread *Q[4], *I[4];
static struct threadpool *pool;
static struct resultq *rq;
static struct thread *mk_thread(void);
static bool snap_running, snap_cb_null;
static void *snap_res, *snap_rq;
static void v_env_wakes(void)
{
	if (v_block_mode == 1) {		/* the pool tells the idle worker to shut down */
		snap_running = g_me->running;	/* the worker's state while it waits is what the contract is about */
		snap_cb_null = g_me->cb == NULL && g_me->arg == NULL;
		snap_res = g_me->res;
		snap_rq = g_me->rq;
		g_me->running = true;
	} else if (v_block_mode == 2) {		/* the owner finishes the queue and nothing is outstanding */
		rq->finished = true;
		rq->nthreads = 0;
	} else if (v_block_mode == 3) {		/* the result handler returns a finished thread to the pool */
		g_returned = mk_thread();
		g_returned->next = pool->head;
		pool->head = g_returned;
	}
}

/* join = the joined thread runs to completion now; if it would wait for ever, the join hangs */
static int v_joined, v_join_mode;
static struct result_handler *g_rh;
static int v_join(pthread_t t)
{
	v_joined++;
	int saved = v_block_mode;
	v_block_mode = 0;
	if (v_join_mode == 1) {
		V_ASSERT(signalled(&g_rh->rq->c), "C13: the handler thread sleeping on the queue's condition is not woken for the end of the stream (destroy would hang)");
		result_worker(g_rh);
	} else {
		size_t k = (size_t)t - 100;
		V_ASSERT(k < IDLEN, "C13: join on something that is not one of the pool's threads");
		V_ASSERT(signalled(&I[k]->c), "C13: an idle worker is joined without being woken for the shutdown signal (destroy would hang)");
		thread_worker(I[k]);
	}
	v_block_mode = saved;
	return 0;
}

static struct thread *mk_thread(void)
{
	struct thread *t = calloc(1, sizeof(*t));
	V_ASSUME(t != NULL);
	t->pool = pool;
	return t;
}
static void build(size_t max)
{
	pool = calloc(1, sizeof(*pool));
	V_ASSUME(pool != NULL);
	pool->max = max;
	rq = calloc(1, sizeof(*rq));
	V_ASSUME(rq != NULL);
	rq->ptail = &rq->head;
	for (size_t i = 0; i < RQN; i++) {
		Q[i] = mk_thread();
		*rq->ptail = Q[i];
		rq->ptail = &Q[i]->next;
	}
	rq->nthreads = RQN + (size_t)vn_range(0, 2);	/* unordered jobs still running are counted too */
	for (size_t i = 0; i < IDLEN; i++) {
		I[i] = mk_thread();
		I[i]->t = (pthread_t)(100 + i);
		I[i]->next = pool->head;
		pool->head = I[i];
	}
	pool->count = RQN + IDLEN + (size_t)vn_range(0, 2);
	V_ASSUME(pool->count <= pool->max);
	RH.rq = rq;
}
static size_t rq_len_and_inv(void)
{
	size_t n = 0;
	struct thread *t = rq->head, *last = NULL;
	for (int i = 0; i < 8; i++) { if (!t) break; n++; last = t; t = t->next; }
	V_ASSERT(t == NULL, "C13: result queue is not a NULL-terminated list (cycle or garbage link)");
	V_ASSERT(rq->ptail == (last ? &last->next : &rq->head), "C13: result queue tail pointer does not address the last link (next enqueue would be lost or corrupt the list)");
	V_ASSERT(rq->nthreads >= n, "C13: outstanding-thread count below the number of queued threads");
	return n;
}
static size_t pool_len_and_inv(void)
{
	size_t n = 0;
	struct thread *t = pool->head;
	for (int i = 0; i < 8; i++) {
		if (!t) break;
		V_ASSERT(t->cb == NULL && t->res == NULL && !t->running, "C13: a thread on the idle list still carries a job / result / running flag");
		n++;
		t = t->next;
	}
	V_ASSERT(t == NULL, "C13: idle list is not NULL-terminated");
	V_ASSERT(pool->count <= pool->max, "C13: more worker threads than the configured maximum");
	return n;
}

/* step 1: threadpool_dispatch (incl. threadpool_next) */
void h_dispatch(void)
{
	verif_stop_is_violation = 1;
	size_t max = (size_t)vn_range(1, 10);
	build(max);
	/* enabled only when it would not block: an idle thread exists or one more may be created */
	V_ASSUME(IDLEN > 0 || pool->count < pool->max);
	size_t n0 = rq_len_and_inv(), i0 = pool_len_and_inv(), nt0 = rq->nthreads, c0 = pool->count;
	threadpool_dispatch(pool, &RH, ORDERED, job_fn, &tokens[0]);
	V_ASSERT(!v_blocked, "C13: dispatch blocked although a thread was available");
	/* which thread got the job: normally an idle one is reused; creating another one while the
	 * maximum is not reached would satisfy C13 as well, so both are accepted */
	V_ASSERT(v_created <= 1 && pool->count == c0 + (size_t)v_created, "C13: at most one thread is created per dispatch and it is counted");
	V_ASSERT(IDLEN > 0 || v_created == 1, "C13: no idle thread: one must be created");
	struct thread *thr = v_created ? (struct thread *)v_created_arg : NULL;
	if (!v_created)
		for (size_t i = 0; i < IDLEN; i++)
			if (I[i]->cb == job_fn) thr = I[i];	/* whichever idle thread was picked */
	V_ASSERT(thr != NULL, "C13: the job is handed to an idle or a new thread");
	V_ASSERT(thr->cb == job_fn && thr->arg == &tokens[0] && thr->running, "C13: the job is handed to the chosen thread");
	size_t n1 = rq_len_and_inv(), i1 = pool_len_and_inv();
	V_ASSERT(i1 == i0 - (v_created ? 0 : 1), "C13: a reused thread leaves the idle list");
	V_ASSERT(rq->nthreads == nt0 + 1, "C13: outstanding-thread count incremented once");
	if (ORDERED) {
		V_ASSERT(n1 == n0 + 1, "C13: ordered job queued at dispatch time");
		struct thread *t = rq->head;
		for (size_t i = 0; i + 1 < n1; i++) t = t->next;
		V_ASSERT(t == thr && thr->rq == NULL, "C13: ordered job appended at the TAIL of the result queue");
		for (size_t i = 0; i < RQN; i++) {
			struct thread *u = rq->head;
			for (size_t k = 0; k < i; k++) u = u->next;
			V_ASSERT(u == Q[i], "C13: earlier queue entries keep their order");
		}
	} else {
		V_ASSERT(n1 == n0 && thr->rq == rq, "C13: unordered job remembers its queue and is not queued yet");
	}
	V_ASSERT(signalled(&thr->c), "C13: the chosen worker, sleeping on its own condition, is not woken for the job (lost wake-up: the job never runs)");
	V_ASSERT(!ORDERED || signalled(&rq->c), "C13: the result handler is not woken for a newly queued ordered job");
	V_ASSERT(v_locks_held == 0 && !v_lock_error, "C13: mutex discipline in dispatch");
	V_WITNESS();
}

/* step 2: resultq_next on a queue whose head has finished */
void h_resultq_next(void)
{
	verif_stop_is_violation = 1;
	build((size_t)vn_range(1, 10));
	V_ASSUME(RQN >= 1);
	Q[0]->running = false;
	Q[0]->res = &tokens[4];
	size_t n0 = rq_len_and_inv(), i0 = pool_len_and_inv(), nt0 = rq->nthreads;
	void *res = NULL;
	bool got = resultq_next(rq, &res);
	V_ASSERT(!v_blocked && got, "C13: a finished head result is available but resultq_next blocks / reports the end");
	V_ASSERT(res == &tokens[4] && Q[0]->res == NULL, "C13: the head thread's result is handed out once and cleared");
	size_t n1 = rq_len_and_inv(), i1 = pool_len_and_inv();
	V_ASSERT(n1 == n0 - 1 && (RQN < 2 || rq->head == Q[1]), "C13: exactly the head is removed from the result queue");
	V_ASSERT(rq->nthreads == nt0 - 1, "C13: outstanding-thread count decremented once");
	V_ASSERT(i1 == i0 + 1, "C13: the thread returns to the idle list");
	{
		bool found = false;
		struct thread *t = pool->head;
		for (int i = 0; i < 8; i++) { if (!t) break; if (t == Q[0]) found = true; t = t->next; }
		V_ASSERT(found, "C13: the thread returns to the idle list");
	}
	V_ASSERT(signalled(&pool->c), "C13: a thread returned to the idle list does not wake a dispatcher waiting on the saturated pool (lost wake-up: dispatch hangs)");
	V_ASSERT(v_locks_held == 0 && !v_lock_error, "C13: mutex discipline in resultq_next");
	V_WITNESS();
}

/* step 2b: end of stream */
void h_resultq_end(void)
{
	verif_stop_is_violation = 1;
	build((size_t)vn_range(1, 10));
	V_ASSUME(RQN == 0);
	rq->finished = vn_bool();
	bool done = rq->finished && rq->nthreads == 0;
	v_block_mode = 2;
	void *res = NULL;
	bool got = resultq_next(rq, &res);
	V_ASSERT(!got, "C13: an empty queue yields no result");
	if (done)
		V_ASSERT(!v_blocked, "C13: finished and nothing outstanding: the handler loop must end without waiting");
	else
		V_ASSERT(v_blocked == 1 + v_spurious && v_env_acted == 1, "C13: results outstanding (or not finished): the handler must wait until that changes -- also across a spurious wake-up -- not end");
	V_ASSERT(v_locks_held == 0 && !v_lock_error, "C13: mutex discipline");
	V_WITNESS();
}

/* step 3: one job executed by a worker */
void h_worker_step(void)
{
	verif_stop_is_violation = 1;
	build((size_t)vn_range(1, 10));
	/* an ordered job's thread sits in the result queue since dispatch (any position); an unordered
	 * one is outside the queue but counted in nthreads since dispatch */
	struct thread *me;
	if (ORDERED) {
		V_ASSUME(RQN >= 1);
		me = Q[RQN >= 1 ? vn_range(0, RQN >= 1 ? RQN - 1 : 0) : 0];
	} else {
		me = mk_thread();
		V_ASSUME(rq->nthreads >= RQN + 1);
	}
	me->running = true;
	me->cb = job_fn;
	me->arg = &tokens[5];
	me->rq = ORDERED ? NULL : rq;
	size_t n0 = rq_len_and_inv();
	g_me = me;
	v_block_mode = 1;
	thread_worker(me);		/* one job, then it waits; the environment answers with the shutdown signal */
	V_ASSERT(v_blocked == 1 + v_spurious && v_env_acted == 1, "C13: after its job the worker must wait for the next one, also across a spurious wake-up (it neither exits nor spins)");
	V_ASSERT(cb_calls == 1 && snap_res == &tokens[5], "C13: the job runs exactly once and its result is stored");
	V_ASSERT(snap_cb_null && !snap_running, "C13: worker clears its mailbox and stops running");
	size_t n1 = rq_len_and_inv();
	if (ORDERED) {
		V_ASSERT(n1 == n0, "C13: an ordered job's thread was queued at dispatch, not again by the worker");
	} else {
		V_ASSERT(n1 == n0 + 1 && snap_rq == NULL, "C13: an unordered job's thread queues itself once when done");
		struct thread *t = rq->head;
		for (size_t i = 0; i + 1 < n1; i++) t = t->next;
		V_ASSERT(t == me, "C13: finished thread appended at the tail");
	}
	V_ASSERT(ORDERED ? signalled(&me->c) : signalled(&rq->c), "C13: a finished job does not wake whoever waits for its result (ordered: the handler waits on the thread's condition; unordered: on the queue's) -- lost wake-up, the result is never delivered");
	V_ASSERT(v_locks_held == 0 && !v_lock_error, "C13: mutex discipline in the worker");
	V_WITNESS();
}

/* step 3b: shutdown signal (running with no callback) ends the worker */
void h_worker_shutdown(void)
{
	build(2);
	struct thread *me = mk_thread();
	me->running = true;
	me->cb = NULL;
	g_me = me;
	v_block_mode = 1;
	thread_worker(me);
	V_ASSERT(!v_blocked && cb_calls == 0, "C13: a NULL job must end the worker thread");
	V_WITNESS();
}

/* step 1b: saturated pool: dispatch must WAIT (never create a thread beyond max) and proceed with the
 * thread the result handler hands back */
void h_dispatch_saturated(void)
{
	verif_stop_is_violation = 1;
	build((size_t)vn_range(1, 10));
	V_ASSUME(IDLEN == 0 && pool->count == pool->max);
	size_t c0 = pool->count, nt0 = rq->nthreads;
	v_block_mode = 3;
	threadpool_dispatch(pool, &RH, ORDERED, job_fn, &tokens[0]);
	V_ASSERT(v_blocked == 1 + v_spurious && v_env_acted == 1, "C13: a saturated pool must make dispatch wait until a thread comes back, also across a spurious wake-up");
	V_ASSERT(v_created == 0 && pool->count == c0, "C13: the pool never runs more worker threads than its configured maximum");
	V_ASSERT(g_returned->cb == job_fn && g_returned->arg == &tokens[0] && g_returned->running, "C13: the recycled thread receives the job");
	V_ASSERT(pool_len_and_inv() == 0 && rq->nthreads == nt0 + 1, "C13: idle list and outstanding count after a recycled dispatch");
	size_t n1 = rq_len_and_inv();
	V_ASSERT(n1 == RQN + (ORDERED ? 1 : 0), "C13: queue length after dispatch");
	V_ASSERT(signalled(&g_returned->c) && (!ORDERED || signalled(&rq->c)), "C13: worker (and, for ordered jobs, the result handler) woken after a recycled dispatch");
	V_ASSERT(v_locks_held == 0 && !v_lock_error, "C13: mutex discipline");
	V_WITNESS();
}

/* step 4: the result handler's loop: every finished result once, in queue order, then the end */
static void *seen[4];
static int nseen;
static int cbdata_token;
static void result_fn(void *res, void *cbdata)
{
	V_ASSERT(cbdata == &cbdata_token, "C13: result callback gets the handler's cbdata");
	if (nseen < 4) seen[nseen] = res;
	nseen++;
}
void h_result_worker(void)
{
	verif_stop_is_violation = 1;
	build((size_t)vn_range(1, 10));
	for (size_t i = 0; i < RQN; i++) { Q[i]->running = false; Q[i]->res = &tokens[i]; }
	rq->nthreads = RQN;			/* everything outstanding is already queued */
	struct result_handler *rh = calloc(1, sizeof(*rh));
	V_ASSUME(rh != NULL);
	rh->rq = rq; rh->cb = result_fn; rh->cbdata = &cbdata_token;
	v_block_mode = 2;			/* when it waits, the owner calls resultq_finish */
	rq->finished = vn_bool();
	result_worker(rh);
	V_ASSERT(nseen == RQN, "C13: every queued result is delivered exactly once");
	for (size_t i = 0; i < RQN; i++)
		V_ASSERT(seen[i] == &tokens[i], "C13: results are delivered in queue (= submission) order");
	V_ASSERT(rh->rq == NULL, "C13: the handler thread releases the queue when it ends");
	V_ASSERT(pool_len_and_inv() == IDLEN + RQN, "C13: every delivered thread is back on the idle list");
	V_ASSERT(v_locks_held == 0 && !v_lock_error, "C13: mutex discipline");
	free(rh);
	V_WITNESS();
}

/* step 5: handler life cycle with nothing outstanding: destroy must return */
void h_handler_lifecycle(void)
{
	verif_stop_is_violation = 1;
	struct result_handler *rh = result_handler_init(result_fn, &cbdata_token);
	V_ASSERT(rh != NULL && v_created == 1 && v_created_arg == rh, "C13: one handler thread is started on the handler");
	V_ASSERT(rh->rq != NULL && rh->rq->head == NULL && rh->rq->ptail == &rh->rq->head && rh->rq->nthreads == 0 && !rh->rq->finished, "C13: fresh result queue");
	g_rh = rh;
	rq = rh->rq;
	v_join_mode = 1;
	result_handler_destroy(&rh);	/* the join runs the handler thread to its end; a wait there = hang */
	V_ASSERT(rh == NULL && v_joined == 1 && nseen == 0, "C13: result_handler_destroy joins the handler and clears the pointer");
	V_ASSERT(v_locks_held == 0 && !v_lock_error, "C13: mutex discipline");
	V_WITNESS();
}

/* step 6: destroying a pool whose threads are all idle returns, after telling each to exit */
void h_pool_destroy(void)
{
	verif_stop_is_violation = 1;
	build((size_t)vn_range(1, 10));
	V_ASSUME(pool->count == IDLEN);
	threadpool_destroy(&pool);
	V_ASSERT(pool == NULL && v_joined == IDLEN && !v_blocked, "C13: threadpool_destroy joins every thread and returns");
	V_ASSERT(cb_calls == 0, "C13: no job runs during shutdown");
	V_ASSERT(v_locks_held == 0 && !v_lock_error, "C13: mutex discipline");
	V_WITNESS();
}

/* step 7: the public wrappers: a pool of 0 threads is "no pool", any other size is the maximum */
void h_public_wrappers(void)
{
	verif_stop_is_violation = 1;
	size_t n = (size_t)vn_range(0, 1000);
	struct mtbl_threadpool *tp = mtbl_threadpool_init(n);
	V_ASSERT(tp != NULL, "C13: mtbl_threadpool_init returns a handle");
	V_ASSERT((tp->pool != NULL) == (n > 0), "C13: thread count 0 means no pool, anything else a pool");
	if (tp->pool != NULL)
		V_ASSERT(tp->pool->max == n && tp->pool->count <= n, "C13: a fresh pool has the configured maximum");
	mtbl_threadpool_destroy(&tp);
	V_ASSERT(tp == NULL && !v_blocked, "C13: destroying an unused pool returns at once");
	mtbl_threadpool_destroy(&tp);	/* NULL handle: no-op */
	V_ASSERT(v_locks_held == 0 && !v_lock_error, "C13: mutex discipline");
	V_WITNESS();
}

V_MAIN(V_E(h_public_wrappers), V_E(h_dispatch_saturated), V_E(h_result_worker), V_E(h_handler_lifecycle), V_E(h_pool_destroy), V_E(h_dispatch), V_E(h_resultq_next), V_E(h_resultq_end), V_E(h_worker_step), V_E(h_worker_shutdown))
