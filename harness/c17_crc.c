/* C17: both CRC-32C implementations against the bit-at-a-time definition.
 * Real code: libmy/crc32c-slicing.c (linked), libmy/crc32c-sse42.c (#included
 * with the CRC32 instruction replaced by its C model, shim/asm_crc32.h). */
#include <stdlib.h>
#include <string.h>
#include "verif.h"

#ifndef VERIF_NATIVE
#include "../shim/asm_crc32.h"
#endif
#include "libmy/crc32c-sse42.c"
#ifndef VERIF_NATIVE
#undef asm
#endif
uint32_t my_crc32c_slicing(const uint8_t *, size_t);

int unknown_asm_seen;
void verif_unknown_asm(void) { unknown_asm_seen = 1; }

#ifndef IMPL
#define IMPL 0		/* 0 slicing, 1 sse42 */
#endif
#ifndef L
#define L 8
#endif
#ifndef A
#define A 0
#endif
#ifndef BG
#define BG 0
#endif

/* the standard: reflected CRC, polynomial 0x1EDC6F41 (reversed 0x82F63B78),
 * init 0xFFFFFFFF, final xor 0xFFFFFFFF (RFC 3720 / iSCSI) */
static uint32_t ref_crc32c(const uint8_t *p, size_t n)
{
	uint32_t c = 0xFFFFFFFFu;
	for (size_t i = 0; i < n; i++) {
		c ^= p[i];
		for (int k = 0; k < 8; k++)
			c = (c & 1) ? (c >> 1) ^ 0x82F63B78u : (c >> 1);
	}
	return c ^ 0xFFFFFFFFu;
}

static uint32_t impl(const uint8_t *p, size_t n)
{
#if IMPL == 0
	return my_crc32c_slicing(p, n);
#else
	return my_crc32c_sse42(p, n);
#endif
}

static uint8_t bg_byte(size_t i)
{
#if BG == 0
	(void)i;
	return 0;
#else
	return (uint8_t)(0xA5u ^ (i * 37u) ^ (i >> 3));
#endif
}

/* object is exactly A+L bytes; CBMC's pointer encoding makes (uintptr_t)p & 7
 * the offset inside the object, i.e. the buffer starts at alignment A */
static uint8_t *mkbuf(void)
{
	uint8_t *base = malloc(A + L ? A + L : 1);
	V_ASSUME(base != NULL);
	return base;
}

void h_all(void)
{
	uint8_t *base = mkbuf();
	for (size_t i = 0; i < A + L; i++)
		base[i] = vn_u8();
	V_ASSERT(impl(base + A, L) == ref_crc32c(base + A, L), "C17: CRC-32C of an arbitrary buffer");
	V_ASSERT(!unknown_asm_seen, "C17: unmodelled asm statement");
	free(base);
	V_WITNESS();
}

/* known answers (RFC 3720 B.4 and the classic check value) run through the
 * real code symbolically-constant: guards the reference itself */
void h_known(void)
{
	static const uint8_t s[9] = { '1', '2', '3', '4', '5', '6', '7', '8', '9' };
	uint8_t z[32], f[32], up[32];
	for (int i = 0; i < 32; i++) { z[i] = 0; f[i] = 0xff; up[i] = (uint8_t)i; }
	V_ASSERT(ref_crc32c(s, 9) == 0xE3069283u, "C17: reference check value");
	V_ASSERT(ref_crc32c(z, 32) == 0x8A9136AAu, "C17: reference 32 zeros");
	V_ASSERT(ref_crc32c(f, 32) == 0x62A8AB43u, "C17: reference 32 ones");
	V_ASSERT(ref_crc32c(up, 32) == 0x46DD794Eu, "C17: reference 0..31");
	V_ASSERT(impl(s, 9) == 0xE3069283u, "C17: implementation check value");
	V_ASSERT(impl(z, 32) == 0x8A9136AAu && impl(f, 32) == 0x62A8AB43u && impl(up, 32) == 0x46DD794Eu, "C17: implementation RFC 3720 vectors");
	V_WITNESS();
}

/* one symbolic byte at every position in turn, concrete background */
void h_one(void)
{
	uint8_t *base = mkbuf();
#ifdef POS
	for (size_t pos = POS; pos < POS + 1 && pos < L; pos++) {
#else
	for (size_t pos = 0; pos < L; pos++) {
#endif
		for (size_t i = 0; i < A + L; i++)
			base[i] = bg_byte(i);
		base[A + pos] = vn_u8();
		V_ASSERT(impl(base + A, L) == ref_crc32c(base + A, L), "C17: CRC-32C with one arbitrary byte");
	}
	V_ASSERT(!unknown_asm_seen, "C17: unmodelled asm statement");
	free(base);
	V_WITNESS();
}

/* two symbolic bytes, both at solver-chosen positions */
void h_two(void)
{
	uint8_t *base = mkbuf();
	for (size_t i = 0; i < A + L; i++)
		base[i] = bg_byte(i);
#if defined(POS) && defined(POS2)
	size_t p1 = POS, p2 = POS2;	/* shape: concrete positions */
#else
	size_t p1 = (size_t)vn_range(0, L ? L - 1 : 0), p2 = (size_t)vn_range(0, L ? L - 1 : 0);
#endif
	uint8_t v1 = vn_u8(), v2 = vn_u8();
	if (L > 0) {
		base[A + p1] = v1;
		base[A + p2] = v2;
	}
	V_ASSERT(impl(base + A, L) == ref_crc32c(base + A, L), "C17: CRC-32C with two arbitrary bytes at arbitrary positions");
	free(base);
	V_WITNESS();
}

V_MAIN(V_E(h_all), V_E(h_known), V_E(h_one), V_E(h_two))
