/* runtime shared by all harnesses (both CBMC and native replay builds) */
#include "verif.h"

int verif_stop_is_violation = 1;
int verif_aborted;

#ifndef VERIF_NATIVE

void verif_abort(const char *expr, const char *file, int line)
{
	(void)expr; (void)file; (void)line;
	verif_aborted = 1;
#ifndef WITNESS
	if (verif_stop_is_violation)
		__CPROVER_assert(0, "mtbl stopped (its own assert failed) on an input for which the property forbids stopping");
#endif
	__CPROVER_assume(0);
}

#else

#include <stdio.h>
#include <stdlib.h>
#include <string.h>

#include <stdarg.h>
void verif_msg(const char *fmt, ...)
{
	va_list ap;
	va_start(ap, fmt);
	vfprintf(stderr, fmt, ap);
	va_end(ap);
}

static uint64_t *replay_vals;
static size_t replay_n, replay_pos;

static void replay_load(void)
{
	static int loaded;
	if (loaded) return;
	loaded = 1;
	const char *p = getenv("VERIF_REPLAY");
	if (!p) return;
	FILE *f = fopen(p, "r");
	if (!f) { fprintf(stderr, "REPLAY: cannot open %s\n", p); exit(2); }
	size_t cap = 1024;
	replay_vals = malloc(cap * sizeof(uint64_t));
	unsigned long long v;
	while (fscanf(f, "%llu", &v) == 1) {
		if (replay_n == cap) { cap *= 2; replay_vals = realloc(replay_vals, cap * sizeof(uint64_t)); }
		replay_vals[replay_n++] = v;
	}
	fclose(f);
}

uint64_t verif_replay_next(void)
{
	replay_load();
	if (replay_pos < replay_n)
		return replay_vals[replay_pos++];
	replay_pos++;
	return 0;
}

void verif_abort(const char *expr, const char *file, int line)
{
	verif_aborted = 1;
	fprintf(stderr, "REPLAY: mtbl assert failed: %s (%s:%d)\n", expr, file, line);
	if (verif_stop_is_violation) {
		fprintf(stderr, "REPLAY: VIOLATED stop-on-valid-input\n");
		exit(1);
	}
	fprintf(stderr, "REPLAY: stopped (acceptable)\n");
	exit(0);
}

#endif
