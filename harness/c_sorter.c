/* Sorter level (C06, C13 layer A for the sorter, C18): all of mtbl/sorter.c
 * (#included) against CONTRACT MODELS of the APIs around it:
 *   writer   - records the chunk written per descriptor, refuses non-increasing keys (C08)
 *   reader   - mtbl_reader_init_fd(fd) hands back the chunk written through fd
 *   merger   - records sources and merge function; its iterator is the k-way merge with fold
 *              of C04's oracle (the real merger is checked against that oracle in C04)
 *   iter     - mtbl_iter_init/next/seek/destroy with direct dispatch
 *   pool     - threadpool_dispatch runs the job and its result callback either at once or at
 *              any later pool call / result_handler_destroy, unordered (documented contract)
 *   libc     - qsort = any permutation sorted by the caller's comparator; mkstemp/unlink/close
 *              ghost descriptor + temp-file table; sprintf/getpid fixed
 * Keys are concrete (shape), values are solver variables. */
#include <stdio.h>
#include <stdlib.h>
#include <string.h>
#include <unistd.h>
#include "verif.h"
#include "mtbl-private.h"

#ifndef NA
#define NA 3			/* add calls */
#endif
#ifndef AKEYS
#define AKEYS {{1,'b'},{1,'a'},{1,'b'}}	/* {len, byte} per add, any order, duplicates allowed */
#endif
#ifndef MAXMEM
#define MAXMEM 40		/* white box: below the public setter's 10 MiB clamp */
#endif
#ifndef POOL
#define POOL 0
#endif
#ifndef MERGEEMPTY
#define MERGEEMPTY 0		/* k > 0: the user merge function returns an EMPTY (non-NULL, length 0) value on its k-th call: legal, not a failure */
#endif
#ifndef MERGEFAIL
#define MERGEFAIL 0		/* k > 0: the user merge function fails on its k-th call */
#endif
#ifndef SCEN
#define SCEN 0			/* 0 iterate, 1 destroy before iterating, 2 add/write after iter, 3 mtbl_sorter_write */
#endif
#define MAXC 5			/* chunks */
#define MAXCE 5			/* entries per chunk */

static const uint8_t A_key[NA ? NA : 1][2] = AKEYS;
static uint8_t A_val[NA ? NA : 1];

/* ---------------- ghost descriptors / temp files ---------------- */
static int fd_open[16], n_mkstemp, n_unlink, bad_template, n_fd_open;
#ifndef TMPDIR_SLASH
#define TMPDIR_SLASH 0
#endif
static const char *expect_dir = TMPDIR_SLASH ? "/spill/" : "/spill";
static int verif_mkstemp(char *tmpl)
{
	/* the file must be a direct child of the configured directory: "<dir>/<name>" (a doubled
	 * slash is the same directory); "<dir><name>" without a separating slash is a sibling */
	size_t dl = 6;
	for (size_t i = 0; i < dl; i++)
		if (tmpl[i] != "/spill"[i]) bad_template = 1;
	if (tmpl[dl] != '/') bad_template = 1;
	{
		size_t i = dl;
		while (tmpl[i] == '/' && i < dl + 3) i++;
		for (; i < 40 && tmpl[i]; i++)
			if (tmpl[i] == '/') bad_template = 1;	/* no further directory component */
	}
	int fd = 3 + n_mkstemp;
	n_mkstemp++;
	fd_open[fd] = 1;
	n_fd_open++;
	return fd;
}
static int verif_unlink(const char *p) { (void)p; n_unlink++; return 0; }
static int verif_close(int fd)
{
	if (fd >= 0 && fd < 16 && fd_open[fd]) { fd_open[fd] = 0; n_fd_open--; }
	return 0;
}
static int verif_sprintf(char *dst, const char *fmt, ...)
{
	(void)fmt;
	static const char t[] = "/.mtbl.7.XXXXXX";
	for (size_t i = 0; i < sizeof(t); i++) dst[i] = t[i];
	return (int)sizeof(t) - 1;
}
/* qsort contract: the array ends up as some permutation of itself, ordered by cmp; elements that
 * compare equal may end up in ANY relative order.  Modelled as an insertion sort driven by the
 * caller's comparator (concrete decisions, since keys are concrete) followed by n-1 passes of
 * nondeterministic swaps of adjacent equal elements (reaches every order of every tie group). */
static void verif_qsort(void *base, size_t n, size_t size, int (*cmp)(const void *, const void *))
{
	void **a = base;
	(void)size;
	V_ASSUME(n <= MAXCE);
	for (size_t i = 1; i < MAXCE; i++) {
		if (i >= n) break;
		for (size_t j = i; j > 0; j--) {
			if (cmp(&a[j - 1], &a[j]) > 0) { void *t = a[j - 1]; a[j - 1] = a[j]; a[j] = t; }
			else break;
		}
	}
	for (size_t pass = 0; pass + 1 < MAXCE; pass++) {
		if (pass + 1 >= n) break;
		for (size_t j = 0; j + 1 < MAXCE; j++) {
			if (j + 1 >= n) break;
			if (cmp(&a[j], &a[j + 1]) == 0 && vn_bool()) { void *t = a[j]; a[j] = a[j + 1]; a[j + 1] = t; }
		}
	}
}

/* ---------------- ghost chunks (writer + reader models) ---------------- */
struct chunk { int fd, closed, readers, destroyed_readers; size_t n; uint8_t k[MAXCE][2]; uint8_t v[MAXCE]; };
static struct chunk CH[MAXC];
static size_t n_chunks;
static int writers_open, writer_refused, opts_open, snappy_asked;

struct mtbl_writer_options { int comp; };
struct mtbl_writer_options *mtbl_writer_options_init(void) { struct mtbl_writer_options *o = calloc(1, sizeof(*o)); V_ASSUME(o); opts_open++; return o; }
void mtbl_writer_options_set_compression(struct mtbl_writer_options *o, mtbl_compression_type t) { o->comp = (int)t; if (t == MTBL_COMPRESSION_SNAPPY) snappy_asked++; }
void mtbl_writer_options_destroy(struct mtbl_writer_options **o) { if (*o) { free(*o); *o = NULL; opts_open--; } }
struct mtbl_writer *mtbl_writer_init_fd(int fd, const struct mtbl_writer_options *o)
{
	(void)o;
	V_ASSUME(n_chunks < MAXC);
	struct chunk *c = &CH[n_chunks++];
	c->fd = fd;
	c->n = 0;
	writers_open++;
	return (struct mtbl_writer *)c;
}
mtbl_res mtbl_writer_add(struct mtbl_writer *w, const uint8_t *k, size_t kl, const uint8_t *v, size_t vl)
{
	struct chunk *c = (struct chunk *)w;
	if (c->n > 0 && !(v_cmp(k, kl, &c->k[c->n - 1][1], c->k[c->n - 1][0]) > 0)) {
		writer_refused = 1;
		return mtbl_res_failure;
	}
	V_ASSUME(c->n < MAXCE && kl <= 1 && (vl == 1 || (MERGEEMPTY && vl == 0)));
	c->k[c->n][0] = (uint8_t)kl;
	c->k[c->n][1] = kl ? k[0] : 0;
	c->v[c->n] = vl ? v[0] : 0;
	c->n++;
	return mtbl_res_success;
}
void mtbl_writer_destroy(struct mtbl_writer **w)
{
	if (*w) { ((struct chunk *)*w)->closed = 1; writers_open--; *w = NULL; }
}
struct mtbl_reader *mtbl_reader_init_fd(int fd, const struct mtbl_reader_options *o)
{
	(void)o;
	for (size_t i = 0; i < MAXC; i++)
		if (i < n_chunks && CH[i].fd == fd && CH[i].closed) { CH[i].readers++; return (struct mtbl_reader *)&CH[i]; }
	return NULL;
}
void mtbl_reader_destroy(struct mtbl_reader **r)
{
	if (*r) { ((struct chunk *)*r)->destroyed_readers++; *r = NULL; }
}
const struct mtbl_source *mtbl_reader_source(struct mtbl_reader *r)
{
	if (r == NULL)
		verif_abort("r != NULL", "mtbl/reader.c (mtbl_reader_source)", 0);	/* the real function asserts */
	return (const struct mtbl_source *)r;
}

/* ---------------- ghost merger ---------------- */
struct mtbl_merger_options { mtbl_merge_func merge; void *clos; };
struct gmerger { struct chunk *src[MAXC]; size_t n; mtbl_merge_func merge; void *clos; int iters; };
static int mergers_open, mopts_open;
struct mtbl_merger_options *mtbl_merger_options_init(void) { struct mtbl_merger_options *o = calloc(1, sizeof(*o)); V_ASSUME(o); mopts_open++; return o; }
void mtbl_merger_options_set_merge_func(struct mtbl_merger_options *o, mtbl_merge_func m, void *c) { o->merge = m; o->clos = c; }
void mtbl_merger_options_destroy(struct mtbl_merger_options **o) { if (*o) { free(*o); *o = NULL; mopts_open--; } }
struct mtbl_merger *mtbl_merger_init(const struct mtbl_merger_options *o)
{
	struct gmerger *m = calloc(1, sizeof(*m));
	V_ASSUME(m);
	m->merge = o->merge;
	m->clos = o->clos;
	mergers_open++;
	return (struct mtbl_merger *)m;
}
void mtbl_merger_add_source(struct mtbl_merger *mm, const struct mtbl_source *s)
{
	struct gmerger *m = (struct gmerger *)mm;
	V_ASSUME(m->n < MAXC);
	m->src[m->n++] = (struct chunk *)s;
}
const struct mtbl_source *mtbl_merger_source(struct mtbl_merger *m) { return (const struct mtbl_source *)m; }
void mtbl_merger_destroy(struct mtbl_merger **m) { if (*m) { free(*m); *m = NULL; mergers_open--; } }

/* ---------------- iterators: direct dispatch ---------------- */
struct mtbl_iter {
	int ghost;				/* 1: merged view of a ghost merger */
	struct gmerger *m; size_t pos[MAXC]; uint8_t kbuf[2], vbuf[1];
	mtbl_iter_seek_func seek; mtbl_iter_next_func next; mtbl_iter_free_func free_fn; void *clos;
};
static int iters_open;
struct mtbl_iter *mtbl_source_iter(const struct mtbl_source *s)
{
	struct mtbl_iter *it = calloc(1, sizeof(*it));
	V_ASSUME(it);
	it->ghost = 1;
	it->m = (struct gmerger *)s;
	iters_open++;
	return it;
}
struct mtbl_iter *mtbl_iter_init(mtbl_iter_seek_func s, mtbl_iter_next_func n, mtbl_iter_free_func f, void *clos)
{
	struct mtbl_iter *it = calloc(1, sizeof(*it));
	V_ASSUME(it);
	it->seek = s; it->next = n; it->free_fn = f; it->clos = clos;
	iters_open++;
	return it;
}
static mtbl_res ghost_next(struct mtbl_iter *it, const uint8_t **k, size_t *kl, const uint8_t **v, size_t *vl)
{
	struct gmerger *m = it->m;
	long best = -1;
	for (size_t s = 0; s < MAXC; s++) {
		if (s >= m->n) break;
		struct chunk *c = m->src[s];
		if (it->pos[s] >= c->n) continue;
		if (best < 0 || v_cmp(&c->k[it->pos[s]][1], c->k[it->pos[s]][0],
				      &m->src[best]->k[it->pos[best]][1], m->src[best]->k[it->pos[best]][0]) < 0)
			best = (long)s;
	}
	if (best < 0)
		return mtbl_res_failure;
	struct chunk *bc = m->src[best];
	uint8_t kk[2] = { bc->k[it->pos[best]][0], bc->k[it->pos[best]][1] };
	uint8_t acc = 0;
	int first = 1;
	for (size_t s = 0; s < MAXC; s++) {
		if (s >= m->n) break;
		struct chunk *c = m->src[s];
		if (it->pos[s] < c->n && v_eq(&c->k[it->pos[s]][1], c->k[it->pos[s]][0], &kk[1], kk[0])) {
			if (first) { acc = c->v[it->pos[s]]; first = 0; }
			else {
				if (m->merge == NULL) continue;	/* not used by the sorter (it asserts a merge fn) */
				uint8_t *mv = NULL; size_t ml = 0;
				uint8_t a = acc, b = c->v[it->pos[s]];
				m->merge(m->clos, &kk[1], kk[0], &a, 1, &b, 1, &mv, &ml);
				if (mv == NULL) return mtbl_res_failure;
				acc = mv[0];
				free(mv);
			}
			it->pos[s]++;
		}
	}
	it->kbuf[0] = kk[1]; it->vbuf[0] = acc;
	*k = it->kbuf; *kl = kk[0]; *v = it->vbuf; *vl = 1;
	return mtbl_res_success;
}
mtbl_res mtbl_iter_next(struct mtbl_iter *it, const uint8_t **k, size_t *kl, const uint8_t **v, size_t *vl)
{
	if (it == NULL) return mtbl_res_failure;
	if (it->ghost) return ghost_next(it, k, kl, v, vl);
	return it->next(it->clos, k, kl, v, vl);
}
mtbl_res mtbl_iter_seek(struct mtbl_iter *it, const uint8_t *k, size_t kl)
{
	if (it == NULL) return mtbl_res_failure;
	if (it->ghost) {
		for (size_t s = 0; s < MAXC; s++) {
			if (s >= it->m->n) break;
			struct chunk *c = it->m->src[s];
			size_t p = c->n;
			for (size_t i = c->n; i-- > 0;) if (v_cmp(&c->k[i][1], c->k[i][0], k, kl) >= 0) p = i;
			it->pos[s] = p;
		}
		return mtbl_res_success;
	}
	return it->seek(it->clos, k, kl);
}
void mtbl_iter_destroy(struct mtbl_iter **it)
{
	if (*it) {
		if (!(*it)->ghost && (*it)->free_fn) (*it)->free_fn((*it)->clos);
		free(*it);
		*it = NULL;
		iters_open--;
	}
}

/* ---------------- the real sorter ---------------- */
#undef INITIAL_SORTER_VEC_SIZE
#define INITIAL_SORTER_VEC_SIZE 4	/* capacity hint only (1 MiB in the real build) */
#define mkstemp verif_mkstemp
#define unlink verif_unlink
#define close verif_close
#define sprintf verif_sprintf
#define qsort verif_qsort
#define getpid() 7
#include "mtbl/sorter.c"
#undef mkstemp
#undef unlink
#undef close
#undef sprintf
#undef qsort

/* ---------------- thread pool contract ---------------- */
struct result_handler { result_cb cb; void *cbdata; int live; };
struct job { thread_cb cb; void *arg; struct result_handler *rh; int pending; };
static struct job JOB[MAXC];
static size_t n_jobs;
static int rh_open, jobs_run, results_delivered;
static void run_job(struct job *j)
{
	if (!j->pending) return;
	j->pending = 0;
	void *res = j->cb(j->arg);
	jobs_run++;
	j->rh->cb(res, j->rh->cbdata);
	results_delivered++;
}
/* DELIVER (shape): when the pool gets round to a job: 0 = at once, 1 = at the next pool call
 * (dispatch of a later job or result_handler_destroy), 2 = only when the handler is destroyed,
 * 3 = any of these, chosen by the solver per job */
#ifndef DELIVER
#define DELIVER 3
#endif
static void maybe_run_some(int at_dispatch_of_new)
{
	for (size_t i = 0; i < MAXC; i++) {
		if (!(i < n_jobs && JOB[i].pending)) continue;
		bool go;
		if (DELIVER == 0) go = true;
		else if (DELIVER == 1) go = at_dispatch_of_new;
		else if (DELIVER == 2) go = false;
		else go = vn_bool();
		if (go) run_job(&JOB[i]);
	}
}
struct result_handler *result_handler_init(result_cb cb, void *d)
{
	struct result_handler *rh = calloc(1, sizeof(*rh));
	V_ASSUME(rh);
	rh->cb = cb; rh->cbdata = d; rh->live = 1;
	rh_open++;
	return rh;
}
void threadpool_dispatch(struct threadpool *p, struct result_handler *rh, bool ordered, thread_cb cb, void *arg)
{
	(void)p; (void)ordered;
	maybe_run_some(1);			/* workers make progress at any time */
	V_ASSUME(n_jobs < MAXC);
	JOB[n_jobs].cb = cb; JOB[n_jobs].arg = arg; JOB[n_jobs].rh = rh; JOB[n_jobs].pending = 1;
	n_jobs++;
	maybe_run_some(0);
}
void result_handler_destroy(struct result_handler **prh)
{
	if (*prh == NULL) return;
	/* "after waiting for the result handler thread and all worker threads to finish":
	 * every outstanding job runs and delivers, in any order */
	if (vn_bool()) { for (size_t i = MAXC; i-- > 0;) if (i < n_jobs && JOB[i].rh == *prh) run_job(&JOB[i]); }
	else { for (size_t i = 0; i < MAXC; i++) if (i < n_jobs && JOB[i].rh == *prh) run_job(&JOB[i]); }
	free(*prh);
	*prh = NULL;
	rh_open--;
}

/* user merge function: byte sum, optionally failing on its k-th call */
static int merge_calls;
static void merge_sum(void *clos, const uint8_t *key, size_t len_key, const uint8_t *v0, size_t l0,
		      const uint8_t *v1, size_t l1, uint8_t **mv, size_t *ml)
{
	(void)clos; (void)key; (void)len_key; (void)l0; (void)l1;
	merge_calls++;
	if (MERGEFAIL && merge_calls == MERGEFAIL) { *mv = NULL; *ml = 0; return; }
	uint8_t *m = malloc(1);
	V_ASSUME(m);
	if (MERGEEMPTY && merge_calls == MERGEEMPTY) { m[0] = 0; *mv = m; *ml = 0; return; }
	m[0] = (uint8_t)(v0[0] + v1[0]);
	*mv = m; *ml = 1;
}

static struct mtbl_threadpool fake_pool;
static int pool_token;

static void final_resource_checks(void)
{
	V_ASSERT(writers_open == 0, "C18: a chunk writer is still open");
	V_ASSERT(opts_open == 0 && mopts_open == 0, "C18: option objects leaked");
	V_ASSERT(iters_open == 0 && mergers_open == 0, "C18: iterator / merger leaked");
	V_ASSERT(rh_open == 0, "C18/C13: result handler not destroyed");
	for (size_t i = 0; i < MAXC; i++)
		if (i < n_chunks)
			V_ASSERT(CH[i].readers == CH[i].destroyed_readers, "C18: chunk reader not destroyed");
	V_ASSERT(n_unlink == n_mkstemp, "C06/C18: a temporary file was left in the directory");
	V_ASSERT(n_fd_open == 0, "C18: descriptor returned by mkstemp is never closed");
}

void h_sorter(void)
{
	verif_stop_is_violation = 1;
	for (size_t i = 0; i < NA; i++) A_val[i] = vn_u8();
	struct mtbl_sorter_options *so = mtbl_sorter_options_init();
	mtbl_sorter_options_set_merge_func(so, merge_sum, NULL);
	mtbl_sorter_options_set_temp_dir(so, expect_dir);
	if (POOL) {
		fake_pool.pool = (struct threadpool *)&pool_token;
		mtbl_sorter_options_set_threadpool(so, &fake_pool);
	}
	struct mtbl_sorter *s = mtbl_sorter_init(so);
	mtbl_sorter_options_destroy(&so);
	s->opt.max_memory = MAXMEM;		/* white box (setter clamps to >= 10 MiB) */
	/* the harness's own account of what is buffered */
	size_t buffered = 0, nbuf = 0;
	for (size_t i = 0; i < NA; i++) {
		size_t before_chunks = POOL ? n_jobs : n_chunks;
		mtbl_res r = mtbl_sorter_add(s, &A_key[i][1], A_key[i][0], &A_val[i], 1);
		buffered += 8 + A_key[i][0] + 1;
		nbuf++;
		bool must_spill = buffered + 8 * nbuf >= MAXMEM;
		size_t after_chunks = POOL ? n_jobs : n_chunks;
		V_ASSERT((after_chunks > before_chunks) == must_spill, "C06: spill exactly when the buffered entries reach the memory limit");
		if (must_spill) { buffered = 0; nbuf = 0; }
		if (!(MERGEFAIL))
			V_ASSERT(r == mtbl_res_success, "C06: add failed");
		else if (r != mtbl_res_success) {
			/* reported failure (failing merge callback): the caller gives up and destroys */
			mtbl_sorter_destroy(&s);
			final_resource_checks();
			return;
		}
	}
	V_ASSERT(!bad_template, "C06: spill file created outside the configured temporary directory");
#if SCEN == 1
	mtbl_sorter_destroy(&s);
	final_resource_checks();
	V_WITNESS();
	return;
#endif
	struct mtbl_iter *it = NULL;
	mtbl_res wres = mtbl_res_success;
#if SCEN == 3
	{
		struct chunk outc = { .fd = 99 };
		V_ASSUME(n_chunks < MAXC);
		wres = mtbl_sorter_write(s, (struct mtbl_writer *)&outc);
		/* output written through the writer API must be the sorted fold too */
		(void)wres;
	}
#else
	it = mtbl_sorter_iter(s);
#endif
	if (MERGEFAIL) {
		/* failure may surface as a NULL iterator or a failing next; resources still balance */
		const uint8_t *k, *v; size_t kl, vl;
		if (it) for (size_t round = 0; round < NA + 1; round++) if (mtbl_iter_next(it, &k, &kl, &v, &vl) != mtbl_res_success) break;
	} else {
#if SCEN != 3
		V_ASSERT(it != NULL, "C06: no iterator");
		V_ASSERT(!writer_refused, "C06: a chunk was handed to the writer with non-increasing keys");
		/* every chunk: strictly increasing (writer model enforces), all spilled */
		/* output: distinct keys ascending, value = byte sum of exactly the values added for that key */
		long prev = -1;
		for (size_t round = 0; round < NA + 1; round++) {
			const uint8_t *k, *v; size_t kl, vl;
			mtbl_res r = mtbl_iter_next(it, &k, &kl, &v, &vl);
			/* expected next key: smallest added key greater than prev */
			long want = -1;
			for (size_t i = 0; i < NA; i++) {
				long key = A_key[i][0] ? 1 + A_key[i][1] : 0;
				if (key > prev && (want < 0 || key < want)) want = key;
			}
			if (want < 0) {
				V_ASSERT(r == mtbl_res_failure, "C06: extra entry in the sorter's output");
				break;
			}
			V_ASSERT(r == mtbl_res_success, "C06: an added key is missing from the output");
			long got = kl ? 1 + k[0] : 0;
			V_ASSERT(got == want, "C06: keys not in ascending order / key missing or repeated");
			uint8_t sum = 0;
			for (size_t i = 0; i < NA; i++) {
				long key = A_key[i][0] ? 1 + A_key[i][1] : 0;
				if (key == want) sum = (uint8_t)(sum + A_val[i]);
			}
			if (!MERGEEMPTY)	/* with an empty intermediate result only keys, order and "no failure" are judged */
				V_ASSERT(vl == 1 && v[0] == sum, "C06: value is not the fold of exactly the values added for that key");
			prev = want;
		}
#endif
	}
#if SCEN == 2
	V_ASSERT(mtbl_sorter_add(s, (const uint8_t *)"z", 1, (const uint8_t *)"1", 1) == mtbl_res_failure, "C06: add accepted after iteration began");
	V_ASSERT(mtbl_sorter_write(s, NULL) == mtbl_res_failure, "C06: write accepted after iteration began");
#endif
	mtbl_iter_destroy(&it);
	mtbl_sorter_destroy(&s);
	V_ASSERT(s == NULL, "destroy clears the handle");
	if (POOL)
		V_ASSERT(jobs_run == (int)n_jobs && results_delivered == (int)n_jobs, "C13: every dispatched chunk job ran and delivered exactly once");
	final_resource_checks();
	V_WITNESS();
}

/* the public setter's clamp */
void h_sorter_options(void)
{
	struct mtbl_sorter_options *so = mtbl_sorter_options_init();
	V_ASSERT(so->max_memory == 1073741824u && so->pool == NULL, "defaults");
	size_t mm = (size_t)vn_u64();
	mtbl_sorter_options_set_max_memory(so, mm);
	V_ASSERT(so->max_memory == (mm < 10485760u ? 10485760u : mm), "max_memory clamped to >= 10 MiB");
	mtbl_sorter_options_destroy(&so);
	V_WITNESS();
}

V_MAIN(V_E(h_sorter), V_E(h_sorter_options))
