/*
 * verif.h -- common harness header.
 *
 * One harness source is used twice:
 *   - compiled by goto-cc and decided by CBMC (__CPROVER__ defined): vn_*()
 *     return solver variables, V_ASSERT is the property, V_ASSUME a stated
 *     precondition;
 *   - compiled natively (gcc + ASan/UBSan, -DVERIF_NATIVE) to REPLAY a
 *     counterexample against the real code: vn_*() read the values recorded
 *     from the solver's trace, V_ASSERT prints and exits 1, V_ASSUME exits 77
 *     (= "this replay does not satisfy the preconditions").
 *
 * Every symbolic input goes through vn_u64_raw(); the driver reads the values
 * it returned, in call order, out of the CBMC trace.
 */
#ifndef VERIF_H
#define VERIF_H

#include <stdbool.h>
#include <stddef.h>
#include <stdint.h>

/* 1: an abort (failed assert() in mtbl) is a property violation (valid input);
 * 0: stopping is an acceptable outcome, the path just ends. */
extern int verif_stop_is_violation;
extern int verif_aborted;
void verif_abort(const char *expr, const char *file, int line);

#ifndef VERIF_NATIVE

uint64_t nondet_u64(void);
#define V_ASSUME(c) __CPROVER_assume(c)
#ifdef WITNESS
#define V_ASSERT(c, id) ((void)0)
#define V_WITNESS() __CPROVER_assert(0, "WITNESS reached")
#else
#define V_ASSERT(c, id) __CPROVER_assert((c), id)
#define V_WITNESS() ((void)0)
#endif
#define V_NOTE(...) ((void)0)

/* The driver reads the sequence of values of verif_input_value out of the
 * counterexample trace (assignments inside vn_u64_raw, in execution order).
 * (An explicit log array was tried first: its index becomes symbolic as soon
 * as the number of draws is path dependent, and every logged value then costs
 * a 64 Kbit array update -- 1.3 M SAT variables for a 1800-step program.) */
static inline uint64_t vn_u64_raw(void)
{
	uint64_t verif_input_value = nondet_u64();
	return verif_input_value;
}

#else /* native replay */

#include <stdio.h>
#include <stdlib.h>
uint64_t verif_replay_next(void);
void verif_msg(const char *fmt, ...);	/* stderr; immune to harness-local "#define fprintf" */
#define V_ASSUME(c) do { if (!(c)) { verif_msg("REPLAY: assumption not met: %s (%s:%d)\n", #c, __FILE__, __LINE__); exit(77); } } while (0)
#define V_ASSERT(c, id) do { if (!(c)) { verif_msg("REPLAY: VIOLATED %s: %s (%s:%d)\n", id, #c, __FILE__, __LINE__); exit(1); } } while (0)
#define V_WITNESS() ((void)0)
#define V_NOTE(...) verif_msg(__VA_ARGS__)
static inline uint64_t vn_u64_raw(void) { return verif_replay_next(); }

#endif

static inline uint64_t vn_u64(void) { return vn_u64_raw(); }
static inline uint32_t vn_u32(void) { return (uint32_t)vn_u64_raw(); }
static inline uint16_t vn_u16(void) { return (uint16_t)vn_u64_raw(); }
static inline uint8_t vn_u8(void) { return (uint8_t)vn_u64_raw(); }
static inline int vn_int(void) { return (int)(uint32_t)vn_u64_raw(); }
static inline bool vn_bool(void) { return (vn_u64_raw() & 1) != 0; }
/* value in [lo, hi] (inclusive) */
static inline uint64_t vn_range(uint64_t lo, uint64_t hi)
{
	uint64_t v = vn_u64_raw();
	V_ASSUME(v >= lo && v <= hi);
	return v;
}
static inline void vn_bytes(uint8_t *p, size_t n)
{
	for (size_t i = 0; i < n; i++)
		p[i] = vn_u8();
}

/* byte-string order as the properties state it: unsigned bytewise, a proper
 * prefix sorts first.  Written independently of mtbl's bytes_compare. */
static inline int v_cmp(const uint8_t *a, size_t la, const uint8_t *b, size_t lb)
{
	size_t i = 0;
	for (;;) {
		if (i == la && i == lb) return 0;
		if (i == la) return -1;
		if (i == lb) return 1;
		if (a[i] < b[i]) return -1;
		if (a[i] > b[i]) return 1;
		i++;
	}
}
static inline bool v_eq(const uint8_t *a, size_t la, const uint8_t *b, size_t lb)
{
	if (la != lb) return false;
	for (size_t i = 0; i < la; i++)
		if (a[i] != b[i]) return false;
	return true;
}
static inline bool v_has_prefix(const uint8_t *k, size_t lk, const uint8_t *p, size_t lp)
{
	if (lp > lk) return false;
	for (size_t i = 0; i < lp; i++)
		if (k[i] != p[i]) return false;
	return true;
}

/* native dispatch: V_MAIN(V_E(entry1), V_E(entry2)) */
#ifdef VERIF_NATIVE
#include <string.h>
#define V_E(f) { #f, f }
#define V_MAIN(...) \
	int main(int argc, char **argv) { \
		struct { const char *n; void (*f)(void); } t[] = { __VA_ARGS__ }; \
		for (unsigned i = 0; i < sizeof(t) / sizeof(t[0]); i++) \
			if (argc > 1 && strcmp(argv[1], t[i].n) == 0) { \
				t[i].f(); \
				verif_msg("REPLAY: completed without violation\n"); \
				return 0; \
			} \
		verif_msg("REPLAY: unknown entry\n"); \
		return 2; \
	}
#else
#define V_E(f)
#define V_MAIN(...)
#endif

#endif /* VERIF_H */
