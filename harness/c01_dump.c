/* C01 (second sentence): the mtbl_dump tool prints the table's entries and, with its key/value
 * prefix and minimum-length options, exactly the matching subsequence.
 * src/mtbl_dump.c is #included (main renamed); the reader API is a stub yielding N symbolic
 * entries; stdio is captured as a token stream (length header, hex byte, '-', ' ', newline).
 * -x (hex) mode and -s (silent) mode are checked; main()'s getopt/hex_decode parsing is outside. */
#include <stdio.h>
#include <stdlib.h>
#include <string.h>
#include <stdarg.h>
#include "entries.h"
#include "mtbl.h"

#ifndef KPL
#define KPL 1		/* key prefix length; -1 = option not given */
#endif
#ifndef VPL
#define VPL (-1)
#endif
#ifndef SILENT
#define SILENT 0
#endif
#define MAXTOK 96
enum { T_LEN = 1, T_BYTE, T_DASH, T_SP, T_NL, T_OTHER };
static int tk[MAXTOK], tv[MAXTOK], ntok, ek[MAXTOK], ev[MAXTOK], nexp;
static void tok(int k, int v) { if (ntok < MAXTOK) { tk[ntok] = k; tv[ntok] = v; } ntok++; }
static void etok(int k, int v) { if (nexp < MAXTOK) { ek[nexp] = k; ev[nexp] = v; } nexp++; }

static int verif_fprintf(FILE *f, const char *fmt, ...)
{
	(void)f;
	va_list ap;
	va_start(ap, fmt);
	if (fmt[0] == '%' && fmt[1] == '0' && fmt[2] == '8') tok(T_LEN, (int)va_arg(ap, unsigned));
	else if (fmt[0] == '%' && fmt[1] == '0' && fmt[2] == '2') tok(T_BYTE, (int)va_arg(ap, unsigned));
	else tok(T_OTHER, 0);
	va_end(ap);
	return 0;
}
static int verif_fputc(int c, FILE *f)
{
	(void)f;
	tok(c == '-' ? T_DASH : c == ' ' ? T_SP : c == '\n' ? T_NL : T_OTHER, c);
	return c;
}
#ifndef VERIF_NATIVE
/* CBMC has no model of bcmp(3): zero iff the two ranges are equal */
int bcmp(const void *a, const void *b, size_t n) { return memcmp(a, b, n) != 0; }
#endif
/* reader stub */
static size_t r_pos;
static int r_open, r_iters;
struct mtbl_reader *mtbl_reader_init(const char *fname, const struct mtbl_reader_options *o) { (void)fname; (void)o; r_open++; return (struct mtbl_reader *)&r_pos; }
void mtbl_reader_destroy(struct mtbl_reader **r) { if (*r) { r_open--; *r = NULL; } }
const struct mtbl_source *mtbl_reader_source(struct mtbl_reader *r) { return (const struct mtbl_source *)r; }
struct mtbl_iter *mtbl_source_iter(const struct mtbl_source *s) { r_iters++; r_pos = 0; return (struct mtbl_iter *)s; }
void mtbl_iter_destroy(struct mtbl_iter **it) { if (*it) { r_iters--; *it = NULL; } }
mtbl_res mtbl_iter_next(struct mtbl_iter *it, const uint8_t **k, size_t *kl, const uint8_t **v, size_t *vl)
{
	(void)it;
	if (r_pos >= N) return mtbl_res_failure;
	*k = E_key[r_pos]; *kl = E_kl[r_pos]; *v = E_val[r_pos]; *vl = E_vl[r_pos];
	r_pos++;
	return mtbl_res_success;
}

#define fprintf verif_fprintf
#define fputc verif_fputc
#define main mtbl_dump_main
#include "src/mtbl_dump.c"
#undef main
#undef fprintf
#undef fputc

static void expect_hex(const uint8_t *p, size_t n)
{
	etok(T_LEN, (int)n);
	for (size_t i = 0; i < n; i++) {
		etok(T_BYTE, p[i]);
		if (i + 1 < n) etok(T_DASH, '-');
	}
}

void h_dump(void)
{
	verif_stop_is_violation = 1;
	entries_init_sorted();
	uint8_t kp[4], vp[4];
	vn_bytes(kp, 4);
	vn_bytes(vp, 4);
	size_t kmin = (size_t)vn_range(0, 3), vmin = (size_t)vn_range(0, 3);
	const uint8_t *kpp = (KPL >= 0) ? kp : NULL, *vpp = (VPL >= 0) ? vp : NULL;
	size_t kpl = (KPL >= 0) ? KPL : 0, vpl = (VPL >= 0) ? VPL : 0;
	bool ok = dump("t.mtbl", SILENT, true, kpp, kpl, vpp, vpl, kmin, vmin);
	V_ASSERT(ok, "dump reports success on a readable table");
	for (size_t i = 0; i < N; i++) {
		bool m = true;
		if (kpp && !v_has_prefix(E_key[i], E_kl[i], kp, kpl)) m = false;
		if (vpp && !v_has_prefix(E_val[i], E_vl[i], vp, vpl)) m = false;
		if (E_kl[i] < kmin || E_vl[i] < vmin) m = false;
		if (m && !SILENT) {
			expect_hex(E_key[i], E_kl[i]);
			etok(T_SP, ' ');
			expect_hex(E_val[i], E_vl[i]);
			etok(T_NL, '\n');
		}
	}
	V_ASSERT(ntok == nexp, "C01: mtbl_dump printed a different number of items than the matching subsequence needs");
	for (int i = 0; i < MAXTOK; i++)
		if (i < nexp && i < ntok)
			V_ASSERT(tk[i] == ek[i] && tv[i] == ev[i], "C01: mtbl_dump output differs from the matching subsequence (order, bytes, lengths or separators)");
	V_ASSERT(r_open == 0 && r_iters == 0, "C18: mtbl_dump leaves the reader / iterator open");
	V_WITNESS();
}
V_MAIN(V_E(h_dump))
