/* Fileset level (C07): all of mtbl/fileset.c (#included) against contract
 * models of my_fileset (setfile generations), the monotonic clock, readers,
 * mergers, sources and iterators.  A history (shape OPS) of operations on up to
 * two handles sharing one fileset is run; the clock readings and the setfile
 * generations are solver variables.
 *
 *  a / b   open an iterator on handle A / B        x / y   close the oldest open iterator of A / B
 *  g / h   keyed lookup (mtbl_source_get) on A / B that matches nothing in any table; a returned iterator object is kept like a/b
 *  r / R   mtbl_fileset_reload / reload_now on A   q / Q   the same on B
 *  c       the setfile changes (new arbitrary subset of three names)
 *  t       time passes (clock advances by an arbitrary amount >= 0)
 *  d       B = mtbl_fileset_dup(A)                 D / E   destroy A / B
 */
#include <stdlib.h>
#include <string.h>
#include <time.h>
#include "verif.h"
#include "mtbl-private.h"
#include "libmy/my_fileset.h"

#ifndef OPS
#define OPS "acxa"
#endif
#ifndef INTERVAL_A
#define INTERVAL_A 60
#endif
#ifndef INTERVAL_B
#define INTERVAL_B 60
#endif
#ifndef SAMETICK
#define SAMETICK 0		/* 1: the clock may return the same reading for successive calls (it may anyway; this forces it) */
#endif
#define NNAMES 3
#define MAXR 12			/* readers ever created */

/* ---------------- ghost clock ---------------- */
static struct timespec G_now = { 1000, 5 };
static int verif_clock_gettime(clockid_t id, struct timespec *ts)
{
	(void)id;
	*ts = G_now;		/* non-decreasing: only op 't' moves it */
	return 0;
}

/* ---------------- ghost readers ---------------- */
struct greader { int alive; int name; };
static struct greader RD[MAXR];
static size_t n_readers;
struct mtbl_reader *mtbl_reader_init(const char *fname, const struct mtbl_reader_options *o)
{
	(void)o;
	V_ASSUME(n_readers < MAXR);
	RD[n_readers].alive = 1;
	RD[n_readers].name = fname[0] - '0';	/* names are "0","1","2" */
	return (struct mtbl_reader *)&RD[n_readers++];
}
void mtbl_reader_destroy(struct mtbl_reader **r)
{
	if (*r) { ((struct greader *)*r)->alive = 0; *r = NULL; }
}
const struct mtbl_source *mtbl_reader_source(struct mtbl_reader *r) { return (const struct mtbl_source *)r; }

/* ---------------- ghost setfile (my_fileset contract) ---------------- */
struct my_fileset {
	my_fileset_load_func load; my_fileset_unload_func unload; void *user;
	int have[NNAMES]; void *ptr[NNAMES];
};
static unsigned G_setfile = 0;		/* names currently listed in the setfile (bit mask) */
static int G_setfile_changed = 1;	/* inode/mtime differ from what the fileset saw last */
static unsigned G_loaded_gen;		/* names loaded as of the most recent effective reload */
static int n_effective_reloads, n_reload_calls, open_iters_total, reload_while_iter;
static const char *const names[NNAMES] = { "0", "1", "2" };
struct my_fileset *my_fileset_init(const char *setfile, my_fileset_load_func load, my_fileset_unload_func unload, void *user)
{
	(void)setfile;
	struct my_fileset *fs = calloc(1, sizeof(*fs));
	V_ASSUME(fs);
	fs->load = load; fs->unload = unload; fs->user = user;
	return fs;
}
void *my_fileset_user(struct my_fileset *fs) { return fs->user; }
void my_fileset_reload(struct my_fileset *fs)
{
	n_reload_calls++;
	if (!G_setfile_changed)
		return;				/* setfile_updated() says no: nothing happens */
	G_setfile_changed = 0;
	n_effective_reloads++;
	if (open_iters_total > 0)
		reload_while_iter = 1;
	for (int i = 0; i < NNAMES; i++) {
		int want = (G_setfile >> i) & 1;
		if (want && !fs->have[i]) { fs->ptr[i] = fs->load(fs, names[i]); fs->have[i] = 1; }
	}
	for (int i = 0; i < NNAMES; i++) {
		int want = (G_setfile >> i) & 1;
		if (!want && fs->have[i]) { fs->unload(fs, names[i], fs->ptr[i]); fs->have[i] = 0; fs->ptr[i] = NULL; }
	}
	G_loaded_gen = G_setfile;
}
bool my_fileset_get(struct my_fileset *fs, size_t i, const char **fname, void **ptr)
{
	size_t k = 0;
	for (int n = 0; n < NNAMES; n++) {
		if (!fs->have[n]) continue;
		if (k == i) { *fname = names[n]; *ptr = fs->ptr[n]; return true; }
		k++;
	}
	return false;
}
void my_fileset_destroy(struct my_fileset **fs)
{
	if (*fs == NULL) return;
	for (int n = 0; n < NNAMES; n++)
		if ((*fs)->have[n]) (*fs)->unload(*fs, names[n], (*fs)->ptr[n]);
	free(*fs);
	*fs = NULL;
}

/* ---------------- ghost mergers / sources / iterators ---------------- */
struct mtbl_merger_options { int dummy; };
struct gmerger { struct greader *src[NNAMES + 1]; size_t n; };
struct mtbl_merger_options *mtbl_merger_options_init(void) { struct mtbl_merger_options *o = calloc(1, sizeof(*o)); V_ASSUME(o); return o; }
void mtbl_merger_options_destroy(struct mtbl_merger_options **o) { if (*o) { free(*o); *o = NULL; } }
void mtbl_merger_options_set_merge_func(struct mtbl_merger_options *o, mtbl_merge_func m, void *c) { (void)o; (void)m; (void)c; }
void mtbl_merger_options_set_dupsort_func(struct mtbl_merger_options *o, mtbl_dupsort_func m, void *c) { (void)o; (void)m; (void)c; }
struct mtbl_merger *mtbl_merger_init(const struct mtbl_merger_options *o)
{
	(void)o;
	struct gmerger *m = calloc(1, sizeof(*m));
	V_ASSUME(m);
	return (struct mtbl_merger *)m;
}
void mtbl_merger_destroy(struct mtbl_merger **m) { if (*m) { free(*m); *m = NULL; } }
void mtbl_merger_add_source(struct mtbl_merger *mm, const struct mtbl_source *s)
{
	struct gmerger *m = (struct gmerger *)mm;
	V_ASSUME(m->n < NNAMES + 1);
	m->src[m->n++] = (struct greader *)s;
}
struct mtbl_source { int is_merger; struct gmerger *m; mtbl_source_iter_func it; mtbl_source_get_func get; void *clos; };
static struct mtbl_source merger_src[8];
static size_t n_merger_src;
const struct mtbl_source *mtbl_merger_source(struct mtbl_merger *m)
{
	V_ASSUME(n_merger_src < 8);
	merger_src[n_merger_src].is_merger = 1;
	merger_src[n_merger_src].m = (struct gmerger *)m;
	return &merger_src[n_merger_src++];
}
struct mtbl_source *mtbl_source_init(mtbl_source_iter_func it, mtbl_source_get_func g, mtbl_source_get_prefix_func gp,
				     mtbl_source_get_range_func gr, mtbl_source_free_func f, void *clos)
{
	(void)gp; (void)gr; (void)f;
	struct mtbl_source *s = calloc(1, sizeof(*s));
	V_ASSUME(s);
	s->it = it; s->get = g; s->clos = clos;
	return s;
}
void mtbl_source_destroy(struct mtbl_source **s) { if (*s) { free(*s); *s = NULL; } }

struct mtbl_iter { int ghost; unsigned snapshot; int stale; mtbl_iter_free_func free_fn; void *clos; };
static unsigned last_snapshot;
static int last_stale;
struct mtbl_iter *mtbl_source_iter(const struct mtbl_source *s)
{
	if (!s->is_merger)
		return s->it(s->clos);		/* the fileset's own source: fileset_source_iter */
	/* an iterator over a merger: records which readers it reads from */
	struct mtbl_iter *it = calloc(1, sizeof(*it));
	V_ASSUME(it);
	it->ghost = 1;
	for (size_t i = 0; i < NNAMES + 1; i++) {
		if (i >= s->m->n) break;
		if (!s->m->src[i]->alive) it->stale = 1;
		else it->snapshot |= 1u << s->m->src[i]->name;
	}
	last_snapshot = it->snapshot;
	last_stale = it->stale;
	return it;
}
struct mtbl_iter *mtbl_iter_init(mtbl_iter_seek_func sk, mtbl_iter_next_func nx, mtbl_iter_free_func fr, void *clos)
{
	(void)sk; (void)nx;
	struct mtbl_iter *it = calloc(1, sizeof(*it));
	V_ASSUME(it);
	it->free_fn = fr; it->clos = clos;
	open_iters_total++;
	return it;
}
void mtbl_iter_destroy(struct mtbl_iter **it)
{
	if (*it == NULL) return;
	if (!(*it)->ghost) {
		open_iters_total--;
		if ((*it)->free_fn) (*it)->free_fn((*it)->clos);
	}
	free(*it);
	*it = NULL;
}
mtbl_res mtbl_iter_next(struct mtbl_iter *it, const uint8_t **k, size_t *kl, const uint8_t **v, size_t *vl)
{ (void)it; (void)k; (void)kl; (void)v; (void)vl; return mtbl_res_failure; }
mtbl_res mtbl_iter_seek(struct mtbl_iter *it, const uint8_t *k, size_t kl) { (void)it; (void)k; (void)kl; return mtbl_res_success; }
/* a keyed lookup on a merger may match nothing: then the merger hands back no iterator at all */
struct mtbl_iter *mtbl_source_get(const struct mtbl_source *s, const uint8_t *k, size_t kl)
{
	(void)k; (void)kl;
	if (s->is_merger)
		return NULL;	/* the interesting case, taken concretely: a symbolic choice here would merge a
				 * NULL and a non-NULL iterator into every later pointer */
	if (!s->is_merger)
		return s->get(s->clos, k, kl);
	return mtbl_source_iter(s);
}
struct mtbl_iter *mtbl_source_get_prefix(const struct mtbl_source *s, const uint8_t *k, size_t kl) { (void)k; (void)kl; return mtbl_source_iter(s); }
struct mtbl_iter *mtbl_source_get_range(const struct mtbl_source *s, const uint8_t *k0, size_t l0, const uint8_t *k1, size_t l1)
{ (void)k0; (void)l0; (void)k1; (void)l1; return mtbl_source_iter(s); }

/* ---------------- the real fileset ---------------- */
#define clock_gettime verif_clock_gettime
#include "mtbl/fileset.c"
#undef clock_gettime

/* filename filter of handle B (dup with other filters): keeps names 0 and 2 */
static bool filter_b(const char *fname, void *clos) { (void)clos; return fname[0] != '1'; }

void h_fileset(void)
{
	verif_stop_is_violation = 1;
	G_setfile = (unsigned)vn_range(0, 7);
	struct mtbl_fileset_options *oa = mtbl_fileset_options_init();
	mtbl_fileset_options_set_reload_interval(oa, INTERVAL_A);
	struct mtbl_fileset *A = mtbl_fileset_init("setfile", oa), *B = NULL;
	mtbl_fileset_options_destroy(&oa);
	struct mtbl_iter *ia[3] = { 0 }, *ib[3] = { 0 };
	size_t nia = 0, nib = 0, cia = 0, cib = 0;
	static const char ops[] = OPS;
	int reload_now_pending = 0;		/* reload_now was asked while iterators were open */
	for (size_t i = 0; i + 1 < sizeof(ops); i++) {
		char op = ops[i];
		struct mtbl_fileset *H = (op == 'a' || op == 'g' || op == 'r' || op == 'R' || op == 'x') ? A : B;
		int eff_before = n_effective_reloads, calls_before = n_reload_calls, iters_before = open_iters_total;
		switch (op) {
		case 'a': case 'b': {
			V_ASSUME(H != NULL);
			struct timespec last = H->shared_fs->fs_last;
			bool elapsed = (G_now.tv_sec - last.tv_sec) > (long)H->reload_interval;
			bool never = H->reload_interval == MTBL_FILESET_RELOAD_INTERVAL_NEVER && !H->shared_fs->reload_needed;
			/* the harness's own memory of a reload_now() that had to be deferred, not the code's flag */
			bool due = ((H->shared_fs->reload_needed || elapsed) && !never) || reload_now_pending;
			struct mtbl_iter *it = mtbl_source_iter(mtbl_fileset_source(H));
			V_ASSERT(it != NULL, "C07: no iterator");
			V_ASSERT(!last_stale, "C07: new iterator reads from a reader that has been unloaded (destroyed)");
			unsigned want = G_loaded_gen;
			if (H == B) want &= ~2u;	/* B's filename filter drops name 1 */
			V_ASSERT(last_snapshot == want, "C07: new iterator does not show exactly the files of the most recent reload (restricted by the handle's filters)");
			if (due && iters_before == 0)
				V_ASSERT(n_reload_calls > calls_before, "C07: a reload was due (reload_now or interval elapsed) but did not happen at this source operation");
			if (iters_before > 0)
				V_ASSERT(n_effective_reloads == eff_before, "C07: reload while an iterator is open");
			if (op == 'a') { V_ASSUME(nia < 3); ia[nia++] = it; } else { V_ASSUME(nib < 3); ib[nib++] = it; }
			break;
		}
		case 'g': case 'h': {
			V_ASSUME(H != NULL);
			struct mtbl_iter *it = mtbl_source_get(mtbl_fileset_source(H), (const uint8_t *)"k", 1);
			/* whether or not something matched, the caller gets an iterator object it can destroy;
			 * keep it like any other */
			if (it != NULL) {
				if (op == 'g') { V_ASSUME(nia < 3); ia[nia++] = it; } else { V_ASSUME(nib < 3); ib[nib++] = it; }
			}
			break;
		}
		case 'x': if (cia < nia) mtbl_iter_destroy(&ia[cia++]); break;
		case 'y': if (cib < nib) mtbl_iter_destroy(&ib[cib++]); break;
		case 'r': case 'q': V_ASSUME(H != NULL); mtbl_fileset_reload(H); break;
		case 'R': case 'Q':
			V_ASSUME(H != NULL);
			mtbl_fileset_reload_now(H);
			if (iters_before == 0)
				V_ASSERT(n_reload_calls > calls_before, "C07: reload_now with no open iterators did not reload");
			else
				reload_now_pending = 1;
			break;
		case 'c': G_setfile = (unsigned)vn_range(0, 7); G_setfile_changed = 1; break;
		case 't':
			if (!SAMETICK) {
				G_now.tv_sec += (time_t)vn_range(0, 200);
				G_now.tv_nsec = (long)vn_range(0, 999999999);
			}
			break;
		case 'd': {
			struct mtbl_fileset_options *ob = mtbl_fileset_options_init();
			mtbl_fileset_options_set_reload_interval(ob, INTERVAL_B);
			mtbl_fileset_options_set_filename_filter_func(ob, filter_b, NULL);
			B = mtbl_fileset_dup(A, ob);
			mtbl_fileset_options_destroy(&ob);
			break;
		}
		case 'D': mtbl_fileset_destroy(&A); break;
		case 'E': mtbl_fileset_destroy(&B); break;
		default: break;
		}
		V_ASSERT(!reload_while_iter, "C07: files were loaded/unloaded while an iterator on the shared fileset was open");
		/* a deferred reload_now is honoured once my_fileset_reload runs with no iterator open
		 * (at the close of the last iterator or at the next source operation) */
		if (n_reload_calls > calls_before && open_iters_total == 0 && op != 'R' && op != 'Q')
			reload_now_pending = 0;
		if ((op == 'R' || op == 'Q') && iters_before == 0)
			reload_now_pending = 0;
	}
	/* tear everything down: iterators first, then the handles in either order */
	for (size_t k = cia; k < nia; k++) mtbl_iter_destroy(&ia[k]);
	for (size_t k = cib; k < nib; k++) mtbl_iter_destroy(&ib[k]);
	if (vn_bool()) { mtbl_fileset_destroy(&A); mtbl_fileset_destroy(&B); }
	else { mtbl_fileset_destroy(&B); mtbl_fileset_destroy(&A); }
	for (size_t r = 0; r < MAXR; r++)
		if (r < n_readers)
			V_ASSERT(!RD[r].alive, "C18: a reader loaded by the fileset is still open after every handle was destroyed");
	V_WITNESS();
}

V_MAIN(V_E(h_fileset))
