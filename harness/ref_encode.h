/*
 * Reference ENCODER of the MTBL file format, written from the format
 * description (mtbl(7) / README), sharing no code with block_builder.c or
 * writer.c.  Every legal encoding choice is a shape parameter or a solver
 * variable:
 *   VER      1 | 2          format version (fixed32 vs varint block length prefix, magic)
 *   PFX      bytes of foreign data before the first block (symbolic bytes)
 *   NB, BLK  number of data blocks and entries per block      -DNB=2 -DBLK={2,2}
 *   RSTS     per entry: 1 = restart point (first entry of a block must be 1)
 *   SHS      per entry: number of key bytes elided (0 at restart points); the
 *            shared bytes are COPIES of the previous key's bytes, the byte after
 *            them is unconstrained, so non-maximal sharing is included
 *   SEPL     per block: length of the index separator key; its bytes are symbolic,
 *            constrained only to  last_key(block) <= sep < first_key(next block)
 *   IRST     per index entry: restart flag (index entries never share: shared = 0)
 *   COMP     compression id stored in the trailer (0 = none; others go through the
 *            ghost identity codec of the harness)
 * Lengths < 128 only (single-byte varints) unless BIGK is set by the harness.
 * Because all lengths are shape constants the whole file layout is concrete;
 * key/value/separator/prefix bytes and CRC values are symbolic.
 */
#ifndef REF_ENCODE_H
#define REF_ENCODE_H
#include <stdlib.h>
#include "entries.h"

#ifndef VER
#define VER 2
#endif
#ifndef PFX
#define PFX 0
#endif
#ifndef NB
#define NB 1
#endif
#ifndef BLK
#define BLK {N}
#endif
#ifndef RSTS
#define RSTS {1}
#endif
#ifndef SHS
#define SHS {0}
#endif
#ifndef SEPL
#define SEPL {1}
#endif
#ifndef IRST
#define IRST {1}
#endif
#ifndef COMP
#define COMP 0
#endif
#ifndef SEPMAX
#define SEPMAX 4
#endif

static const size_t R_blk[NB ? NB : 1] = BLK;
static const int R_rst[N ? N : 1] = RSTS;
static const size_t R_sh[N ? N : 1] = SHS;
static const size_t R_sepl[NB ? NB : 1] = SEPL;
static const int R_irst[NB ? NB : 1] = IRST;

static uint8_t R_sep[NB ? NB : 1][SEPMAX];
static uint64_t R_blk_off[NB ? NB : 1];		/* file offset of each data block */
static size_t R_blk_first[NB ? NB : 1];		/* index of first entry of each block */
static uint64_t R_payload_off[NB + 1];		/* file offset of each block's stored bytes (last = index) */
static size_t R_payload_len[NB + 1];
static uint32_t R_crc[NB + 1];			/* checksum value stored for each block */
static uint64_t R_index_off;
static size_t R_file_len;
static uint8_t *R_file;				/* exactly R_file_len bytes */
static uint64_t R_bytes_data, R_bytes_index;

#if defined(FILE_LEN) && !defined(VERIF_NATIVE)
static uint8_t R_file_store[FILE_LEN];	/* exactly as long as the file: over-reads are bounds failures */
#endif
static size_t r_n;
static int r_counting;		/* pass 0: only measure; pass 1: write into R_file */

static void r_put(uint8_t b) { if (!r_counting) R_file[r_n] = b; r_n++; }
static void r_put32(uint32_t v) { for (int i = 0; i < 4; i++) r_put((v >> (8 * i)) & 0xff); }
static void r_put64(uint64_t v) { for (int i = 0; i < 8; i++) r_put((v >> (8 * i)) & 0xff); }
static void r_putvar(uint64_t v)
{
	while (v >= 128) { r_put((v & 0x7f) | 0x80); v >>= 7; }
	r_put((uint8_t)v);
}
static size_t r_varlen(uint64_t v) { size_t n = 1; while (v >= 128) { v >>= 7; n++; } return n; }

/* entry keys with the requested sharing: shared bytes copied from the
 * previous key; everything else symbolic; then strictly increasing */
#ifdef CKEYS
/* shape: concrete key bytes (values stay symbolic).  Used by history queries so that the state
 * before the one symbolic seek is concrete -- see DESIGN.md C03 */
static const uint8_t C_key[N ? N : 1][KLMAX] = CKEYS;
#endif
static void ref_entries_init(void)
{
	size_t b = 0, inb = 0;
	for (size_t i = 0; i < N; i++) {
		for (size_t j = 0; j < KLMAX; j++) {
			if (j >= E_kl[i])
				E_key[i][j] = 0;
#ifdef CKEYS
			else if (1)
				E_key[i][j] = C_key[i][j];
#endif
			else if (i > 0 && j < R_sh[i])
				E_key[i][j] = E_key[i - 1][j];
			else
				E_key[i][j] = vn_u8();
		}
		for (size_t j = 0; j < VLMAX; j++)
			E_val[i][j] = (j < E_vl[i]) ? vn_u8() : 0;
		(void)b; (void)inb;
	}
	for (size_t i = 0; i + 1 < N; i++)
		V_ASSUME(v_cmp(E_key[i], E_kl[i], E_key[i + 1], E_kl[i + 1]) < 0);
}

/* emits one block's payload: entries [first, first+cnt) */
static void r_emit_data_payload(size_t first, size_t cnt)
{
	size_t start = r_n;
	uint32_t rst[8];
	size_t nrst = 0;
	for (size_t i = first; i < first + cnt; i++) {
		size_t sh = (i == first || R_rst[i]) ? 0 : R_sh[i];
		if (i == first || R_rst[i])
			rst[nrst++] = (uint32_t)(r_n - start);
		r_putvar(sh);
		r_putvar(E_kl[i] - sh);
		r_putvar(E_vl[i]);
		for (size_t j = sh; j < E_kl[i]; j++)
			r_put(E_key[i][j]);
		for (size_t j = 0; j < E_vl[i]; j++)
			r_put(E_val[i][j]);
	}
	for (size_t k = 0; k < nrst; k++)
		r_put32(rst[k]);
	r_put32((uint32_t)nrst);
}

static void r_emit_index_payload(void)
{
	size_t start = r_n;
	uint32_t rst[8];
	size_t nrst = 0;
	for (size_t b = 0; b < NB; b++) {
		if (b == 0 || R_irst[b])
			rst[nrst++] = (uint32_t)(r_n - start);
		r_putvar(0);
		r_putvar(R_sepl[b]);
		r_putvar(r_varlen(R_blk_off[b]));
		for (size_t j = 0; j < R_sepl[b]; j++)
			r_put(R_sep[b][j]);
		r_putvar(R_blk_off[b]);
	}
	if (NB == 0)
		rst[nrst++] = 0;	/* an empty block still has restart[0] = 0 */
	for (size_t k = 0; k < nrst; k++)
		r_put32(rst[k]);
	r_put32((uint32_t)nrst);
}

/* frame = length prefix + crc + payload */
static void r_emit_frame(size_t slot, int is_index, size_t first, size_t cnt)
{
	/* measure the payload first */
	size_t save = r_n;
	int save_mode = r_counting;
	r_counting = 1;
	if (is_index) r_emit_index_payload(); else r_emit_data_payload(first, cnt);
	size_t plen = r_n - save;
	r_n = save;
	r_counting = save_mode;
	if (VER == 1) r_put32((uint32_t)plen); else r_putvar(plen);
	if (!r_counting)
		R_crc[slot] = vn_u32();
	r_put32(R_crc[slot]);
	R_payload_off[slot] = r_n;
	R_payload_len[slot] = plen;
	if (is_index) r_emit_index_payload(); else r_emit_data_payload(first, cnt);
}

static void r_layout(void)
{
	r_n = 0;
	for (size_t i = 0; i < PFX; i++)
		r_put(r_counting ? 0 : vn_u8());
	size_t first = 0;
	for (size_t b = 0; b < NB; b++) {
		R_blk_off[b] = r_n;
		R_blk_first[b] = first;
		r_emit_frame(b, 0, first, R_blk[b]);
		first += R_blk[b];
	}
	R_bytes_data = r_n - PFX;
	R_index_off = r_n;
	r_emit_frame(NB, 1, 0, 0);
	R_bytes_index = r_n - R_index_off;
#ifdef NO_TRAILER
	/* white-box reader harnesses construct struct mtbl_reader directly and need no trailer:
	 * a ~80-byte image instead of ~600 keeps symbolic-offset reads cheap */
	return;
#endif
	/* trailer: nine little-endian 64-bit fields, zero padding, magic */
	size_t t0 = r_n;
	r_put64(R_index_off);
	r_put64(8192);			/* data_block_size (informational) */
	r_put64(COMP);
	r_put64(N);
	r_put64(NB);
	r_put64(R_bytes_data);
	r_put64(R_bytes_index);
	uint64_t bk = 0, bv = 0;
	for (size_t i = 0; i < N; i++) { bk += E_kl[i]; bv += E_vl[i]; }
	r_put64(bk);
	r_put64(bv);
	r_n = t0 + 508;			/* zero padding: never read by a reader; left unwritten
					 * (writing 436 more bytes costs CBMC 436 array copies) */
	r_put32(VER == 1 ? 0x77846676u : 0x4D54424Cu);
}

static void ref_build_file(void)
{
	ref_entries_init();
	/* separators: any key in [last key of block, first key of next block) */
	size_t first = 0;
	for (size_t b = 0; b < NB; b++) {
		for (size_t j = 0; j < SEPMAX; j++) {
#ifdef CSEPS
			static const uint8_t C_sep[NB ? NB : 1][SEPMAX] = CSEPS;
			R_sep[b][j] = (j < R_sepl[b]) ? C_sep[b][j] : 0;
#else
			R_sep[b][j] = (j < R_sepl[b]) ? vn_u8() : 0;
#endif
		}
		size_t last = first + R_blk[b] - 1;
		V_ASSUME(v_cmp(E_key[last], E_kl[last], R_sep[b], R_sepl[b]) <= 0);
		if (b + 1 < NB)
			V_ASSUME(v_cmp(R_sep[b], R_sepl[b], E_key[last + 1], E_kl[last + 1]) < 0);
		first += R_blk[b];
	}
	r_counting = 1;
	r_layout();
	R_file_len = r_n;
#ifdef VERIF_NATIVE
	R_file = calloc(R_file_len, 1);
#elif defined(FILE_LEN)
	/* the driver passes the file length of this shape as a compile-time constant so that the
	 * object has a constant array type and CBMC tracks its bytes individually (constant
	 * propagation of lengths/offsets read back from the image depends on it) */
	V_ASSERT(R_file_len == FILE_LEN, "harness: FILE_LEN does not match the layout");
	R_file = R_file_store;
#else
	R_file = malloc(R_file_len);
#endif
	V_ASSUME(R_file != NULL);
	r_counting = 0;
	r_layout();
}
#endif
