/* C10: trailer serialisation (mtbl/metadata.c, linked) with nine symbolic fields */
#include <string.h>
#include "verif.h"
#include "mtbl-private.h"

static uint64_t le64(const uint8_t *p) { uint64_t r = 0; for (int i = 7; i >= 0; i--) r = (r << 8) | p[i]; return r; }

void h_metadata(void)
{
	struct mtbl_metadata m, back;
	uint64_t f[9];
	for (int i = 0; i < 9; i++) f[i] = vn_u64();
	m.file_version = MTBL_FORMAT_V2;
	m.index_block_offset = f[0]; m.data_block_size = f[1]; m.compression_algorithm = f[2];
	m.count_entries = f[3]; m.count_data_blocks = f[4]; m.bytes_data_blocks = f[5];
	m.bytes_index_block = f[6]; m.bytes_keys = f[7]; m.bytes_values = f[8];
	uint8_t buf[512];
	for (int i = 0; i < 512; i++) buf[i] = 0xAA;
	metadata_write(&m, buf);
	for (int i = 0; i < 9; i++)
		V_ASSERT(le64(buf + 8 * i) == f[i], "C10: field i is the i-th little-endian 64-bit word of the trailer");
	for (int i = 72; i < 508; i++)
		V_ASSERT(buf[i] == 0, "C09: trailer padding zeroed");
	V_ASSERT(buf[508] == 0x4C && buf[509] == 0x42 && buf[510] == 0x54 && buf[511] == 0x4D, "C09: v2 magic 'MTBL' little-endian at the end");
	V_ASSERT(metadata_read(buf, &back), "C10: own trailer reads back");
	V_ASSERT(back.file_version == MTBL_FORMAT_V2, "version from magic");
	V_ASSERT(mtbl_metadata_index_block_offset(&back) == f[0] && mtbl_metadata_data_block_size(&back) == f[1]
		 && mtbl_metadata_compression_algorithm(&back) == f[2] && mtbl_metadata_count_entries(&back) == f[3]
		 && mtbl_metadata_count_data_blocks(&back) == f[4] && mtbl_metadata_bytes_data_blocks(&back) == f[5]
		 && mtbl_metadata_bytes_index_block(&back) == f[6] && mtbl_metadata_bytes_keys(&back) == f[7]
		 && mtbl_metadata_bytes_values(&back) == f[8], "C10: every accessor returns its own field");
	V_ASSERT(mtbl_metadata_file_version(&back) == MTBL_FORMAT_V2, "C10: version accessor");
	/* v1 magic and foreign magics */
	uint32_t magic = vn_u32();
	buf[508] = magic & 0xff; buf[509] = (magic >> 8) & 0xff; buf[510] = (magic >> 16) & 0xff; buf[511] = magic >> 24;
	bool ok = metadata_read(buf, &back);
	V_ASSERT(ok == (magic == 0x4D54424Cu || magic == 0x77846676u), "C11/C19: exactly the two magics are accepted");
	if (ok)
		V_ASSERT((back.file_version == MTBL_FORMAT_V1) == (magic == 0x77846676u), "C11: version follows the magic");
	V_WITNESS();
}
V_MAIN(V_E(h_metadata))
