/* C12 (iv): CRC-32C detects every 1..3 bit flip and every burst <= 32 bits in payload+checksum,
 * decided on the real implementations for payloads of L <= 4 bytes (all payload contents). */
#include <stdlib.h>
#include "verif.h"
#ifndef VERIF_NATIVE
#include "../shim/asm_crc32.h"
#endif
#include "libmy/crc32c-sse42.c"
#ifndef VERIF_NATIVE
#undef asm
#endif
uint32_t my_crc32c_slicing(const uint8_t *, size_t);
void verif_unknown_asm(void) { }
#ifndef IMPL
#define IMPL 1
#endif
#ifndef L
#define L 2
#endif
#ifndef PATTERN
#define PATTERN 0	/* 0: popcount 1..3, 1: burst (all flipped bits within a 32-bit window) */
#endif
static uint32_t impl(const uint8_t *p, size_t n) { return IMPL ? my_crc32c_sse42(p, n) : my_crc32c_slicing(p, n); }

void h_detect(void)
{
	uint8_t p[L + 4], e[L + 4], q[L ? L : 1];
	for (size_t i = 0; i < L; i++) p[i] = vn_u8();
	uint32_t c = impl(p, L);
	for (int i = 0; i < 4; i++) p[L + i] = (c >> (8 * i)) & 0xff;	/* stored little-endian after... the checksum field */
	unsigned pop = 0;
	int first = -1, last = -1;
	for (size_t i = 0; i < L + 4; i++) {
		e[i] = vn_u8();
		for (int b = 0; b < 8; b++)
			if (e[i] & (1u << b)) {
				pop++;
				if (first < 0) first = (int)(8 * i + b);
				last = (int)(8 * i + b);
			}
	}
	V_ASSUME(pop >= 1);
#if PATTERN == 0
	V_ASSUME(pop <= 3);
#else
	V_ASSUME(last - first < 32);
#endif
	for (size_t i = 0; i < L; i++) q[i] = p[i] ^ e[i];
	uint32_t stored = 0;
	for (int i = 0; i < 4; i++) stored |= (uint32_t)(p[L + i] ^ e[L + i]) << (8 * i);
	V_ASSERT(impl(q, L) != stored, "C12: an error pattern CRC-32C is guaranteed to detect goes undetected");
	V_WITNESS();
}
V_MAIN(V_E(h_detect))
