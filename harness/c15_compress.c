/* C15: mtbl/compression.c (real, linked) against contract models of
 * zlib/lz4/zstd/snappy (stubs/codecs_stub.c); native replays use the real
 * libraries. */
#include <limits.h>
#include <stdlib.h>
#include <string.h>
#include "verif.h"
#include "mtbl-private.h"
#include "codecs_stub.h"

#ifndef ALG
#define ALG 2
#endif
#ifndef NMAX
#define NMAX 4
#endif
#ifndef USE_LEVEL
#define USE_LEVEL 1
#endif

/* round trip: compress(alg, level, x) either fails or decompresses to x */
void h_roundtrip(void)
{
	verif_stop_is_violation = 1;	/* "they never abort" */
#ifdef NMIN
	size_t n = (size_t)vn_range(NMIN, NMAX);
#else
	size_t n = (size_t)vn_range(0, NMAX);
#endif
	int level = vn_int();
	uint8_t data[CS_DATA_MAX];
	vn_bytes(data, CS_DATA_MAX);
	uint8_t *in = malloc(n ? n : 1);
	V_ASSUME(in != NULL);
	for (size_t i = 0; i < CS_DATA_MAX; i++)
		if (i < n)
			in[i] = data[i];
	uint8_t *out = NULL, *back = NULL;
	size_t out_n = 0, back_n = 0;
	mtbl_res res;
#if USE_LEVEL
	res = mtbl_compress_level((mtbl_compression_type)ALG, level, in, n, &out, &out_n);
#else
	res = mtbl_compress((mtbl_compression_type)ALG, in, n, &out, &out_n);
#endif
	V_ASSERT(res == mtbl_res_success || res == mtbl_res_failure, "C15: result is success or failure");
#ifndef VERIF_NATIVE
	V_ASSERT(!cs_bad_level, "C15: a level outside the library's legal range was handed to the library");
#if USE_LEVEL
	if (ALG == MTBL_COMPRESSION_ZLIB && level >= -1 && level <= 9)
		V_ASSERT(cs_calls == 0 || cs_level_seen == level, "C15: an in-range zlib level is passed through unchanged");
	if (ALG == MTBL_COMPRESSION_ZSTD && level >= -(1 << 17) && level <= 22)
		V_ASSERT(cs_calls == 0 || cs_level_seen == level, "C15: an in-range zstd level is passed through unchanged");
	if (ALG == MTBL_COMPRESSION_LZ4HC && level >= 0)
		V_ASSERT(cs_calls == 0 || cs_level_seen == level, "C15: an lz4hc level >= 0 is passed through unchanged");
#endif
	/* the glue must offer the library at least its documented worst case,
	 * otherwise whether compression works depends on the data */
	if (cs_calls > 0 && cs_bound_seen >= n + 5)
		V_ASSERT(cs_cap_seen >= cs_bound_seen, "C15: destination smaller than the library's documented bound");
#endif
#ifdef EDGE_ONLY
	/* sizes around INT_MAX: only "no abort, no undefined arithmetic, a definite
	 * result" is claimed (see DESIGN.md C15: an image larger than INT_MAX is
	 * refused by mtbl_decompress) */
	if (res == mtbl_res_success)
		free(out);
	free(in);
	V_WITNESS();
	return;
#endif
	if (res == mtbl_res_success) {
		V_ASSERT(out != NULL, "C15: success without an output buffer");
		res = mtbl_decompress((mtbl_compression_type)ALG, out, out_n, &back, &back_n);
		V_ASSERT(res == mtbl_res_success, "C15: output of a successful compress does not decompress");
		V_ASSERT(back_n == n, "C15: decompressed length differs from the input length");
		for (size_t i = 0; i < CS_DATA_MAX; i++)
			if (i < n)
				V_ASSERT(back[i] == data[i], "C15: decompressed bytes differ from the input");
		free(back);
		free(out);
#if ALG >= 1 && ALG <= 5
		if (n <= CS_DATA_MAX)
			V_WITNESS();
#endif
	} else {
#if !(ALG >= 1 && ALG <= 5)
		V_WITNESS();
#endif
	}
	free(in);
}

/* zlib decompression grow loop: a stream that expands to TOTAL bytes from a
 * tiny image forces the realloc-and-continue path */
#ifndef TOTAL_MAX
#define TOTAL_MAX 2500
#endif
void h_zlib_grow(void)
{
	verif_stop_is_violation = 1;
	size_t total = (size_t)vn_range(0, TOTAL_MAX);
	size_t in_n = (size_t)vn_range(5, 8);
	uint8_t *out = NULL;
	size_t out_n = 0;
#ifdef VERIF_NATIVE
	/* real zlib: build a real stream of `total` pattern bytes */
	uint8_t *plain = malloc(total ? total : 1);
	for (size_t i = 0; i < total; i++) plain[i] = 0;	/* compressible: zeros */
	if (total) { plain[0] = CS_PATTERN(0); plain[total - 1] = CS_PATTERN(total - 1); }
	uint8_t *img = NULL; size_t img_n = 0;
	mtbl_res cr = mtbl_compress(MTBL_COMPRESSION_ZLIB, plain, total, &img, &img_n);
	V_ASSUME(cr == mtbl_res_success);
	mtbl_res res = _mtbl_decompress_zlib(img, img_n, &out, &out_n);
	(void)in_n;
#else
	uint8_t *img = malloc(in_n);
	V_ASSUME(img != NULL);
	cs_inflate_total = total;
	mtbl_res res = _mtbl_decompress_zlib(img, in_n, &out, &out_n);
	V_ASSERT(!cs_inflate_bad, "C15: inflate was handed an output window that is not writable memory");
#endif
	V_ASSERT(res == mtbl_res_success, "C15: zlib decompress failed on a valid stream");
	V_ASSERT(out_n == total, "C15: zlib decompressed length wrong");
	if (total > 0) {
		V_ASSERT(out[0] == CS_PATTERN(0), "C15: first decompressed byte wrong");
		V_ASSERT(out[total - 1] == CS_PATTERN(total - 1), "C15: last decompressed byte wrong (lost across a buffer growth)");
	}
	free(out);
	free(img);
	V_WITNESS();
}

/* names */
static const char *const names[6] = { "none", "snappy", "zlib", "lz4", "lz4hc", "zstd" };
static int ci_eq(const char *a, const char *b)
{
	for (int i = 0; i < 8; i++) {
		unsigned char x = a[i], y = b[i];
		if (x >= 'A' && x <= 'Z') x += 32;
		if (y >= 'A' && y <= 'Z') y += 32;
		if (x != y) return 0;
		if (x == 0) return 1;
	}
	return 0;
}
void h_names(void)
{
	verif_stop_is_violation = 1;
	/* every enum value round-trips, in any letter case */
	unsigned t = (unsigned)vn_range(0, 5);
	const char *s = mtbl_compression_type_to_str((mtbl_compression_type)t);
	V_ASSERT(s != NULL, "C15: known algorithm has no name");
	V_ASSERT(ci_eq(s, names[t]), "C15: to_str returns the documented name");
	char buf[8];
	int k;
	for (k = 0; k < 7 && s[k]; k++) {
		buf[k] = s[k];
		if (vn_bool() && buf[k] >= 'a' && buf[k] <= 'z')
			buf[k] -= 32;
	}
	buf[k] = 0;
	mtbl_compression_type back = (mtbl_compression_type)77;
	V_ASSERT(mtbl_compression_type_from_str(buf, &back) == mtbl_res_success, "C15: from_str refuses a valid name");
	V_ASSERT((unsigned)back == t, "C15: from_str(to_str(t)) != t");
	/* unknown enum values have no name */
	int u = vn_int();
	V_ASSUME(u < 0 || u > 5);
	V_ASSERT(mtbl_compression_type_to_str((mtbl_compression_type)u) == NULL, "C15: unknown algorithm has a name");
	/* every other string of up to 6 characters is refused */
	char other[8];
	unsigned len = (unsigned)vn_range(0, 6);
	for (unsigned i = 0; i < 7; i++) {
		other[i] = (char)vn_u8();
		if (i < len) V_ASSUME(other[i] != 0);
		else other[i] = 0;
	}
	other[7] = 0;
	int is_name = 0;
	for (int i = 0; i < 6; i++)
		if (ci_eq(other, names[i])) is_name = 1;
	back = (mtbl_compression_type)77;
	mtbl_res r = mtbl_compression_type_from_str(other, &back);
	V_ASSERT((r == mtbl_res_success) == (is_name != 0), "C15: from_str accepts exactly the six names (any case)");
	V_WITNESS();
}

V_MAIN(V_E(h_roundtrip), V_E(h_zlib_grow), V_E(h_names))
