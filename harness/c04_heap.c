/* C04/C05 unit: libmy/heap.c (the merger's priority queue) for EVERY content.
 * NH items with symbolic 8-bit keys are entered either by heap_push one by one or by heap_add +
 * heap_heapify (MODE); then NR times the minimum is read and REPLACED by a fresh symbolic key
 * (what the merger does when a source advances); finally the heap is drained with heap_pop.
 * Oracle: a multiset kept in a plain array -- every value handed out must be a minimum of the
 * multiset at that moment, and the heap must be empty exactly when the multiset is. */
#include <stdlib.h>
#include "verif.h"
#include "libmy/heap.c"

#ifndef NH
#define NH 5
#endif
#ifndef NR
#define NR 2
#endif
#ifndef MODE
#define MODE 0		/* 0: heap_push; 1: heap_add + heap_heapify */
#endif

static int cmp_u8(const void *a, const void *b, void *clos)
{
	(void)clos;
	uint8_t x = *(const uint8_t *)a, y = *(const uint8_t *)b;
	return x < y ? -1 : (x > y ? 1 : 0);
}

static uint8_t M[NH];		/* the reference multiset (slot in use iff used[i]) */
static bool used[NH];
static uint8_t ref_min(void)
{
	uint8_t m = 255;
	for (size_t i = 0; i < NH; i++)
		if (used[i] && M[i] < m) m = M[i];
	return m;
}
static void ref_remove(uint8_t v)
{
	bool done = false;
	for (size_t i = 0; i < NH; i++)
		if (!done && used[i] && M[i] == v) { used[i] = false; done = true; }
	V_ASSERT(done, "C04: the heap handed out a value that is not in it");
}
static void ref_add(uint8_t v)
{
	bool done = false;
	for (size_t i = 0; i < NH; i++)
		if (!done && !used[i]) { used[i] = true; M[i] = v; done = true; }
}

void h_heap(void)
{
	verif_stop_is_violation = 1;
	static uint8_t v[NH], w[NR ? NR : 1];
	struct heap *h = heap_init(cmp_u8, NULL);
	for (size_t i = 0; i < NH; i++) {
		v[i] = vn_u8();
		ref_add(v[i]);
		if (MODE == 0) heap_push(h, &v[i]); else heap_add(h, &v[i]);
	}
	if (MODE == 1)
		heap_heapify(h);
	V_ASSERT(heap_size(h) == NH, "C04: heap size after filling");
	for (size_t j = 0; j < NR; j++) {
		uint8_t top = *(uint8_t *)heap_peek(h);
		V_ASSERT(top == ref_min(), "C04: heap_peek is not a minimum (the merger would emit keys out of order)");
		w[j] = vn_u8();
		uint8_t *out = heap_replace(h, &w[j]);
		V_ASSERT(*out == top, "C04: heap_replace returns the former minimum");
		ref_remove(top);
		ref_add(w[j]);
		V_ASSERT(heap_size(h) == NH, "C04: heap_replace keeps the size");
	}
	for (size_t i = 0; i < NH; i++) {
		uint8_t top = *(uint8_t *)heap_peek(h);
		V_ASSERT(top == ref_min(), "C04: heap_peek is not a minimum while draining");
		uint8_t *out = heap_pop(h);
		V_ASSERT(out != NULL && *out == top, "C04: heap_pop returns the minimum");
		ref_remove(top);
	}
	V_ASSERT(heap_size(h) == 0 && heap_peek(h) == NULL && heap_pop(h) == NULL, "C04: drained heap is empty");
	heap_destroy(&h);
	V_WITNESS();
}
V_MAIN(V_E(h_heap))
