/* Writer level (C08, C09, C10, writer half of C01, file-level C20):
 * the real mtbl/writer.c + mtbl/block_builder.c (#included) + metadata.c,
 * varint.c, fixed.c (linked).  write/lseek/dup/close are a ghost file;
 * mtbl_crc32c is an uninterpreted function with a call log; mtbl_compress* is
 * a ghost identity codec.  The output is judged by an INDEPENDENT DECODER
 * written from the format description (below), never by mtbl's reader. */
#include <errno.h>
#include <fcntl.h>
#include <stdio.h>
#include <stdlib.h>
#include <string.h>
#include <unistd.h>
#include "entries.h"

#ifndef RI
#define RI 1			/* block restart interval */
#endif
#ifndef BS
#define BS 40			/* block size (white box: the public setter clamps to >= 1024) */
#endif
#ifndef PFX
#define PFX 0			/* bytes already in the file before the table */
#endif
#ifndef COMPW
#define COMPW 0			/* compression type configured */
#endif
#ifndef ANYORDER
#define ANYORDER 0		/* 1: keys arbitrary (C08), 0: strictly increasing */
#endif
#ifndef FRAG
#define FRAG 0			/* 1: write(2) may return short / EINTR (file-level C20) */
#endif
#ifndef GMAX
#define GMAX 256
#endif
#ifndef WMAX
#define WMAX 64		/* largest single write / block payload copied by the models */
#endif
#define MAXB 6
#define MAXE 8

/* ---------------- ghost file ---------------- */
static uint8_t G_data[GMAX];		/* everything before the trailer */
static size_t G_n;
static uint8_t G_trailer[512];
static int G_trailer_writes, G_bad_fd, G_dups, G_closes, G_writes, G_after_trailer, G_overflow;
static const int G_fd = 11;

static ssize_t verif_write(int fd, const void *buf, size_t n)
{
	G_writes++;
	if (fd != G_fd + 1)
		G_bad_fd = 1;
	if (G_trailer_writes)
		G_after_trailer = 1;	/* nothing may follow the trailer */
#if FRAG
	{
		unsigned kind = (unsigned)vn_range(0, 2);
		size_t k = (size_t)vn_range(1, 8);
		if (kind == 0) {
			errno = EINTR;
			return -1;
		}
		if (kind == 1 && k < n && n != 512)
			n = k;			/* short write */
	}
#endif
	if (n == 512) {
		/* the trailer: captured with one constant-size copy */
		memcpy(G_trailer, buf, 512);
		G_trailer_writes++;
		return 512;
	}
	for (size_t i = 0; i < WMAX; i++)
		if (i < n && G_n + i < GMAX)
			G_data[G_n + i] = ((const uint8_t *)buf)[i];
	if (n > WMAX || G_n + n > GMAX)
		G_overflow = 1;		/* shape too large for the ghost file: reported as a harness error */
	G_n += n;
	return (ssize_t)n;
}
static off_t verif_lseek(int fd, off_t off, int whence)
{
	(void)fd; (void)off; (void)whence;
	return (off_t)PFX;
}
static int verif_dup(int fd) { G_dups++; return fd + 1; }
static int verif_close(int fd) { (void)fd; G_closes++; return 0; }
static int open_flags_seen = -1, open_result, open_calls, open_nonexcl;
static int verif_open(const char *path, int flags, ...)
{
	(void)path;
	open_calls++;
	if (open_calls == 1)
		open_flags_seen = flags;
	if ((flags & (O_CREAT | O_EXCL)) != (O_CREAT | O_EXCL)) {
		/* an open that does not insist on creating the file succeeds on an existing path */
		open_nonexcl++;
		return G_fd;
	}
	if (open_result < 0)
		errno = EEXIST;
	return open_result;
}

/* stat(2) on the target path: when open(O_EXCL) is modelled as failing, the path exists --
 * as an empty regular file, the most tempting thing to "reuse" */
#include <sys/stat.h>
static int verif_stat(const char *p, struct stat *sb)
{
	(void)p;
	if (open_result >= 0) { errno = ENOENT; return -1; }
	sb->st_mode = S_IFREG | 0644;
	sb->st_size = 0;
	return 0;
}
#define stat(p, sb) verif_stat((p), (sb))
#define lstat(p, sb) verif_stat((p), (sb))
#define write verif_write
#define lseek verif_lseek
#define dup verif_dup
#define close verif_close
#define open verif_open
#define fprintf(...) ((void)0)
#include "mtbl/block_builder.c"
#include "mtbl/writer.c"
#undef stat
#undef lstat
#undef write
#undef lseek
#undef dup
#undef close
#undef open

/* ---------------- CRC: uninterpreted, logged ---------------- */
#define CRC_LOG 8
static struct { uint8_t bytes[WMAX]; size_t len; uint32_t val; } crc_log[CRC_LOG];
static int crc_n;
uint32_t mtbl_crc32c(const uint8_t *buf, size_t len)
{
	uint32_t v = vn_u32();
	if (crc_n < CRC_LOG) {
		crc_log[crc_n].len = len;
		crc_log[crc_n].val = v;
		for (size_t i = 0; i < WMAX; i++)
			crc_log[crc_n].bytes[i] = (i < len) ? buf[i] : 0;
	}
	crc_n++;
	return v;
}

/* ---------------- ghost identity codec ---------------- */
static int comp_calls, comp_bad;
static mtbl_res ghost_compress(mtbl_compression_type t, int level, int have_level,
			       const uint8_t *in, size_t n, uint8_t **out, size_t *on)
{
	comp_calls++;
	if ((int)t != COMPW)
		comp_bad = 1;
#ifdef LEVELW
	if (!have_level || level != LEVELW)
		comp_bad = 1;
#else
	if (have_level)
		comp_bad = 1;	/* default level must go through mtbl_compress() */
#endif
	(void)level;
	*out = malloc(n ? n : 1);
	V_ASSUME(*out != NULL);
	for (size_t i = 0; i < WMAX; i++)
		if (i < n)
			(*out)[i] = in[i];
	*on = n;
	return mtbl_res_success;
}
mtbl_res mtbl_compress(mtbl_compression_type t, const uint8_t *in, const size_t n, uint8_t **out, size_t *on)
{
	return ghost_compress(t, 0, 0, in, n, out, on);
}
mtbl_res mtbl_compress_level(mtbl_compression_type t, int level, const uint8_t *in, const size_t n, uint8_t **out, size_t *on)
{
	return ghost_compress(t, level, 1, in, n, out, on);
}
/* ---------------- thread pool contract (C13 layer A) ----------------
 * threadpool_dispatch(ordered = true) runs the job and hands its result to the result callback
 * at some later point, in dispatch order; result_handler_destroy returns only after every
 * outstanding result has been delivered.  WDELIVER (shape) fixes the point: 0 = at once,
 * 1 = at the next pool call, 2 = only inside result_handler_destroy, 3 = solver-chosen. */
#ifndef WPOOL
#define WPOOL 0
#endif
#ifndef WDELIVER
#define WDELIVER 3
#endif
struct result_handler { result_cb cb; void *cbdata; };
static struct { thread_cb cb; void *arg; struct result_handler *rh; int pending; } WJOB[8];
static size_t wjobs, wnext;		/* wnext: first undelivered job (ordered delivery) */
static int w_unordered_dispatch, w_rh_open;
static void w_deliver_upto(size_t n)
{
	for (size_t i = 0; i < 8; i++) {
		if (i < wnext || i >= n || i >= wjobs) continue;
		void *res = WJOB[i].cb(WJOB[i].arg);
		WJOB[i].rh->cb(res, WJOB[i].rh->cbdata);
		WJOB[i].pending = 0;
		wnext = i + 1;
	}
}
static void w_progress(int new_dispatch)
{
	size_t upto = wnext;
	if (WDELIVER == 0) upto = wjobs;
	else if (WDELIVER == 1) upto = new_dispatch ? wjobs : wnext;
	else if (WDELIVER == 3) { upto = (size_t)vn_range(0, 8); if (upto < wnext) upto = wnext; if (upto > wjobs) upto = wjobs; }
	w_deliver_upto(upto);
}
struct result_handler *result_handler_init(result_cb cb, void *d)
{
	struct result_handler *rh = calloc(1, sizeof(*rh));
	V_ASSUME(rh != NULL);
	rh->cb = cb; rh->cbdata = d;
	w_rh_open++;
	return rh;
}
void result_handler_destroy(struct result_handler **rh)
{
	if (*rh == NULL) return;
	w_deliver_upto(wjobs);
	free(*rh);
	*rh = NULL;
	w_rh_open--;
}
void threadpool_dispatch(struct threadpool *p, struct result_handler *rh, bool ordered, thread_cb cb, void *a)
{
	(void)p;
	if (!ordered) w_unordered_dispatch = 1;
	w_progress(1);
	V_ASSUME(wjobs < 8);
	WJOB[wjobs].cb = cb; WJOB[wjobs].arg = a; WJOB[wjobs].rh = rh; WJOB[wjobs].pending = 1;
	wjobs++;
	w_progress(0);
}

/* ---------------- independent decoder (format description only) ---------------- */
static size_t d_pos;
static uint64_t d_varint(const uint8_t *p, size_t *pos)
{
	uint64_t v = 0;
	for (int i = 0; i < 10; i++) {
		uint8_t b = p[(*pos)++];
		v |= (uint64_t)(b & 0x7f) << (7 * i);
		if (!(b & 0x80))
			break;
	}
	return v;
}
static uint32_t d_le32(const uint8_t *p) { return p[0] | (p[1] << 8) | (p[2] << 16) | ((uint32_t)p[3] << 24); }
static uint64_t d_le64(const uint8_t *p) { return d_le32(p) | ((uint64_t)d_le32(p + 4) << 32); }

struct d_entry { uint8_t key[KLMAX + 2]; size_t kl; size_t voff, vl; size_t shared; int is_restart; size_t start; };
struct d_block { uint64_t off, payload_off, payload_len, end; uint32_t crc; size_t ne; struct d_entry e[MAXE]; size_t nrst; int ok; };
static struct d_block D_blk[MAXB], D_idx;
static size_t D_nb;

/* parse one framed block starting at file offset off (file = PFX foreign bytes + G_data) */
static void d_block(struct d_block *b, uint64_t off)
{
	b->ok = 1;
	b->off = off;
	size_t pos = (size_t)off;
	b->payload_len = d_varint(G_data, &pos);
	b->crc = d_le32(G_data + pos);
	pos += 4;
	b->payload_off = pos;
	b->end = pos + b->payload_len;
	if (b->end > G_n || b->payload_len < 8) { b->ok = 0; return; }
	const uint8_t *p = G_data + b->payload_off;
	b->nrst = d_le32(p + b->payload_len - 4);
	if (b->nrst == 0 || 4 * (b->nrst + 1) > b->payload_len) { b->ok = 0; return; }
	size_t rst_off = b->payload_len - 4 * (b->nrst + 1);
	size_t q = 0;
	b->ne = 0;
	for (size_t i = 0; i < MAXE; i++) {
		if (q >= rst_off)
			break;
		struct d_entry *e = &b->e[b->ne];
		e->start = q;
		e->shared = (size_t)d_varint(p, &q);
		size_t non_shared = (size_t)d_varint(p, &q);
		e->vl = (size_t)d_varint(p, &q);
		e->kl = e->shared + non_shared;
		if (e->kl > KLMAX + 2 || (b->ne == 0 && e->shared != 0)) { b->ok = 0; return; }
		for (size_t j = 0; j < KLMAX + 2; j++) {
			if (j < e->shared)
				e->key[j] = b->e[b->ne ? b->ne - 1 : 0].key[j];
			else if (j < e->kl)
				e->key[j] = p[q + (j - e->shared)];
			else
				e->key[j] = 0;
		}
		q += non_shared;
		e->voff = b->payload_off + q;
		q += e->vl;
		e->is_restart = 0;
		for (size_t r = 0; r < MAXE; r++)
			if (r < b->nrst && d_le32(p + rst_off + 4 * r) == e->start)
				e->is_restart = 1;
		b->ne++;
	}
	if (q != rst_off)
		b->ok = 0;
}

static size_t lcp(const uint8_t *a, size_t la, const uint8_t *b, size_t lb)
{
	size_t n = 0;
	for (size_t i = 0; i < KLMAX + 2; i++) {
		if (i < la && i < lb && a[i] == b[i] && n == i)
			n = i + 1;
	}
	return n;
}

/* restart cadence and prefix elision inside one block (interval ri) */
static void d_check_block_structure(const struct d_block *b, size_t ri, const char *what)
{
	(void)what;
	V_ASSERT(b->ok, "C09: block does not parse (framing / restart array)");
	size_t want_rst = 0;
	for (size_t i = 0; i < MAXE; i++) {
		if (i >= b->ne)
			break;
		const struct d_entry *e = &b->e[i];
		int should = (i % ri) == 0;
		V_ASSERT(e->is_restart == should, "C09: restart points fall exactly every restart-interval entries");
		if (should) {
			V_ASSERT(e->shared == 0, "C09: shared prefix must be 0 at a restart point");
			want_rst++;
		} else {
			V_ASSERT(e->shared == lcp(b->e[i - 1].key, b->e[i - 1].kl, e->key, e->kl), "C09: longest common prefix elided between restarts");
		}
	}
	if (b->ne == 0)
		want_rst = 1;
	V_ASSERT(b->nrst == want_rst, "C09: restart array length");
	V_ASSERT(d_le32(G_data + b->payload_off + b->payload_len - 4 * (b->nrst + 1)) == 0, "C09: restart[0] == 0");
}

/* size a block has after its first j entries (what the writer's estimate must be) */
static size_t d_size_after(const struct d_block *b, size_t j, size_t ri)
{
	size_t bytes = (j < b->ne) ? b->e[j].start : (size_t)(b->payload_len - 4 * (b->nrst + 1));
	size_t rst = (j == 0) ? 1 : (j + ri - 1) / ri;
	return bytes + 4 * rst + 4;
}

/* accepted list kept by the harness itself */
#ifndef NADDS
#define NADDS (N ? N : 1)
#endif
static size_t A_idx[NADDS], A_n;

static void decode_and_check(size_t ri, size_t block_size, int comp)
{
	V_ASSERT(!G_overflow, "harness: shape too large for the ghost file (GMAX/WMAX)");
	/* ---- trailer ---- */
	V_ASSERT(G_trailer_writes == 1 && !G_after_trailer, "C09: exactly one trailer, last in the file");
	V_ASSERT(d_le32(G_trailer + 508) == 0x4D54424Cu, "C09: trailer ends with the v2 magic");
	for (size_t i = 72; i < 508; i++)
		V_ASSERT(G_trailer[i] == 0, "C09: trailer padding is zero");
	uint64_t t_index_off = d_le64(G_trailer), t_bs = d_le64(G_trailer + 8), t_comp = d_le64(G_trailer + 16),
		 t_entries = d_le64(G_trailer + 24), t_blocks = d_le64(G_trailer + 32), t_bytes_data = d_le64(G_trailer + 40),
		 t_bytes_index = d_le64(G_trailer + 48), t_bytes_keys = d_le64(G_trailer + 56), t_bytes_vals = d_le64(G_trailer + 64);
	V_ASSERT(t_index_off >= PFX && t_index_off < G_n, "C09: index offset inside the file");
	/* ---- index block ---- */
	d_block(&D_idx, t_index_off);
	d_check_block_structure(&D_idx, ri, "index");
	V_ASSERT(D_idx.end == G_n, "C09: index block is the last block before the trailer");
	D_nb = D_idx.ne;
	/* ---- data blocks ---- */
	uint64_t expect_off = PFX;
	size_t ai = 0;
	uint64_t sum_k = 0, sum_v = 0;
	for (size_t b = 0; b < MAXB; b++) {
		if (b >= D_nb)
			break;
		size_t vpos = D_idx.e[b].voff;
		uint64_t off = d_varint(G_data, &vpos);
		V_ASSERT(vpos == D_idx.e[b].voff + D_idx.e[b].vl, "C09: index value is exactly one varint");
		V_ASSERT(off == expect_off, "C09: data blocks contiguous from the initial offset; index value = block start");
		d_block(&D_blk[b], off);
		d_check_block_structure(&D_blk[b], ri, "data");
		expect_off = D_blk[b].end;
		V_ASSERT(D_blk[b].ne >= 1, "C09: empty data block");
		/* checksum: the b-th CRC request covered exactly the stored bytes and its value is in the field */
		V_ASSERT((size_t)crc_log[b].len == D_blk[b].payload_len && crc_log[b].val == D_blk[b].crc, "C09/C12: block carries the CRC32C of its stored bytes");
		for (size_t i = 0; i < WMAX; i++)
			if (i < D_blk[b].payload_len)
				V_ASSERT(crc_log[b].bytes[i] == G_data[D_blk[b].payload_off + i], "C09/C12: checksum computed over the bytes that were stored");
		/* entries are the accepted ones, in order */
		for (size_t i = 0; i < MAXE; i++) {
			if (i >= D_blk[b].ne)
				break;
			V_ASSERT(ai < A_n, "C01/C08: file holds more entries than were accepted");
			if (ai < A_n) {
				size_t x = A_idx[ai];
				const struct d_entry *e = &D_blk[b].e[i];
				V_ASSERT(v_eq(e->key, e->kl, E_key[x], E_kl[x]), "C01/C08: key in the file differs from the accepted key");
				V_ASSERT(e->vl == E_vl[x], "C01/C08: value length differs");
				for (size_t j = 0; j < VLMAX; j++)
					if (j < e->vl)
						V_ASSERT(G_data[e->voff + j] == E_val[x][j], "C01/C08: value bytes differ");
				sum_k += e->kl;
				sum_v += e->vl;
			}
			ai++;
		}
		/* index key: last key of block <= k < first key of next block */
		const struct d_entry *last = &D_blk[b].e[D_blk[b].ne - 1];
		V_ASSERT(v_cmp(last->key, last->kl, D_idx.e[b].key, D_idx.e[b].kl) <= 0, "C09: index key below the block's last key");
		/* block-size rule */
		if (D_blk[b].ne > 1)
			V_ASSERT(D_blk[b].payload_len <= block_size, "C09: a block with more than one entry exceeds the block size");
		for (size_t i = 1; i < MAXE; i++)
			if (i < D_blk[b].ne)
				V_ASSERT(d_size_after(&D_blk[b], i, ri) + 15 + D_blk[b].e[i].kl + D_blk[b].e[i].vl < block_size,
					 "C09: entry added to a block that should have been closed first");
	}
	for (size_t b = 0; b + 1 < MAXB; b++) {
		if (b + 1 >= D_nb)
			break;
		const struct d_entry *nf = &D_blk[b + 1].e[0];
		V_ASSERT(v_cmp(D_idx.e[b].key, D_idx.e[b].kl, nf->key, nf->kl) < 0, "C09: index key not below the next block's first key");
		V_ASSERT(D_blk[b].payload_len + 15 + nf->kl + nf->vl >= block_size, "C09: block closed although the next entry still fitted");
	}
	V_ASSERT(ai == A_n, "C01/C08: an accepted entry is missing from the file");
	V_ASSERT(expect_off == t_index_off, "C09: index block follows the last data block");
	V_ASSERT((size_t)crc_log[D_nb].len == D_idx.payload_len && crc_log[D_nb].val == D_idx.crc && crc_n == (int)D_nb + 1, "C09/C12: index block carries its CRC32C; one CRC per block");
	/* ---- C10: the nine statistics ---- */
	V_ASSERT(t_entries == A_n, "C10: count_entries");
	V_ASSERT(t_blocks == D_nb, "C10: count_data_blocks");
	V_ASSERT(t_bytes_data == t_index_off - PFX, "C10: bytes_data_blocks");
	V_ASSERT(t_bytes_index == G_n - t_index_off, "C10: bytes_index_block");
	V_ASSERT(t_bytes_keys == sum_k && t_bytes_vals == sum_v, "C10: bytes_keys / bytes_values");
	V_ASSERT(t_bs == block_size && t_comp == (uint64_t)comp, "C10: data_block_size / compression_algorithm");
}

/* small-capacity builders instead of the 64 KiB ones (DESIGN.md 2.4) */
static struct block_builder *small_builder(size_t ri)
{
	struct block_builder *b = my_calloc(1, sizeof(*b));
	b->block_restart_interval = ri;
	b->buf = ubuf_init(WMAX + 32);
	b->last_key = ubuf_init(KLMAX + 4);
	b->restarts = uint64_vec_init(8);
	uint64_vec_add(b->restarts, 0);
	return b;
}

static struct mtbl_writer *make_writer(void)
{
	for (size_t i = 0; i < PFX; i++)
		G_data[i] = vn_u8();	/* foreign bytes already in the file */
	G_n = PFX;
	/* Options are installed white-box after an init with opt == NULL: the real init copies the
	 * option struct with memcpy(), which CBMC models as a whole-object array update and which
	 * would cost constant propagation on every writer field.  That the copy itself is right is
	 * h_init_opts' job. */
	struct mtbl_writer *w = mtbl_writer_init_fd(G_fd, NULL);
	V_ASSERT(w != NULL && G_dups == 1, "writer init dups the descriptor");
	w->opt.compression_type = (mtbl_compression_type)COMPW;
#ifdef LEVELW
	w->opt.compression_level = LEVELW;
#endif
	w->opt.block_size = BS;		/* below the public setter's clamp of 1024 */
	w->opt.block_restart_interval = RI;
	w->m.compression_algorithm = COMPW;
	w->m.data_block_size = BS;
	block_builder_destroy(&w->data);
	block_builder_destroy(&w->index);
	w->data = small_builder(RI);
	w->index = small_builder(RI);
#if WPOOL
	{
		/* what mtbl_writer_init_fd does when the options carry a pool */
		static int pool_token;
		w->pool = (struct threadpool *)&pool_token;
		w->rhandler = result_handler_init(_write_data_block_wrapper, w);
	}
#endif
	return w;
}

/* the real option plumbing: what init_fd copies out of the option object */
void h_init_opts(void)
{
	struct mtbl_writer_options *wo = mtbl_writer_options_init();
	unsigned t = (unsigned)vn_range(0, 5);
	int lv = vn_int();
	size_t bs = (size_t)vn_range(0, 1u << 30), ri = (size_t)vn_range(1, 1u << 20);
	mtbl_writer_options_set_compression(wo, (mtbl_compression_type)t);
	mtbl_writer_options_set_compression_level(wo, lv);
	mtbl_writer_options_set_block_size(wo, bs);
	mtbl_writer_options_set_block_restart_interval(wo, ri);
	struct mtbl_writer *w = mtbl_writer_init_fd(G_fd, vn_bool() ? wo : NULL);
	V_ASSERT(w != NULL, "init");
	if (w->opt.block_size != 8192 || w->opt.compression_level != DEFAULT_COMPRESSION_LEVEL || t == 2) {
		/* options were given (or coincide with the defaults) */
	}
	V_ASSERT(w->m.compression_algorithm == (uint64_t)w->opt.compression_type && w->m.data_block_size == w->opt.block_size, "C10: trailer fields mirror the options in force");
	V_ASSERT(w->m.file_version == MTBL_FORMAT_V2 && w->last_offset == PFX && w->pending_offset == PFX && !w->closed, "writer starts at the current file offset");
	V_ASSERT(w->opt.block_size >= 1024 || w->opt.block_size == 8192, "block size is the clamped option or the default");
	mtbl_writer_options_destroy(&wo);
	V_WITNESS();
}

void h_write(void)
{
	verif_stop_is_violation = 1;
#if ANYORDER
	entries_init_any();
#elif defined(KT)
	entries_init_template();
#else
	entries_init_sorted();
#endif
	uint8_t pfx_copy[PFX ? PFX : 1];
	struct mtbl_writer *w = make_writer();
	for (size_t i = 0; i < PFX; i++)
		pfx_copy[i] = G_data[i];
	long last = -1;
#ifdef PERM
	/* order of the add calls (shape): indexes into the sorted template, repeats allowed */
	static const size_t perm[NADDS] = PERM;
	for (size_t ii = 0; ii < NADDS; ii++) {
		size_t i = perm[ii];
#else
	for (size_t i = 0; i < N; i++) {
#endif
		/* C08 oracle: accepted iff strictly greater than the last ACCEPTED key (kept here) */
		bool want = (last < 0) || v_cmp(E_key[i], E_kl[i], E_key[last], E_kl[last]) > 0;
		uint64_t before_entries = w->m.count_entries, before_k = w->m.bytes_keys, before_v = w->m.bytes_values;
		size_t before_n = G_n;
		int before_crc = crc_n;
		mtbl_res r = mtbl_writer_add(w, E_key[i], E_kl[i], E_val[i], E_vl[i]);
		V_ASSERT((r == mtbl_res_success) == want, "C08: add succeeds iff the key is strictly greater than the last accepted key");
		if (r == mtbl_res_success) {
			A_idx[A_n++] = i;
			last = (long)i;
		} else {
			V_ASSERT(w->m.count_entries == before_entries && w->m.bytes_keys == before_k && w->m.bytes_values == before_v
				 && G_n == before_n && crc_n == before_crc, "C08: a refused add changes nothing");
		}
	}
	mtbl_writer_destroy(&w);
	V_ASSERT(w == NULL && G_closes == 1 && !G_bad_fd, "C18: writer closes its descriptor exactly once");
	for (size_t i = 0; i < PFX; i++)
		V_ASSERT(G_data[i] == pfx_copy[i], "C09: bytes before the table are untouched");
	V_ASSERT(!w_unordered_dispatch && w_rh_open == 0 && wnext == wjobs, "C13: writer blocks must be dispatched ordered, all delivered, and the result handler joined at close");
	V_ASSERT(!comp_bad, "C01: compressor called with an algorithm/level other than the configured one");
	V_ASSERT((COMPW == 0) == (comp_calls == 0), "C01: compression used iff configured");
#ifndef NODECODE
	decode_and_check(RI, BS, COMPW);
#else
	/* symbolic accept/refuse pattern => symbolic layout: only the trailer's entry count is read
	 * back here; full decoding of files with refusals is done on the permuted-template shapes */
	V_ASSERT(d_le64(G_trailer + 24) == A_n, "C08/C10: trailer counts exactly the accepted entries");
#endif
	V_WITNESS();
}

/* C08, the gate itself for ARBITRARY keys: one add from a valid pre-state.  The pre-state is
 * produced by the real writer from a templated (concretely ordered) history; the last add then
 * takes a key whose every byte is a solver variable.  One step from every reachable shape of
 * state (block empty / filled / about to be cut) replaces exploring symbolic histories, whose
 * accept/refuse pattern makes the whole file layout symbolic. */
#ifndef AKL
#define AKL 1
#endif
#ifndef AVL
#define AVL 1
#endif
void h_gate_step(void)
{
	verif_stop_is_violation = 1;
#ifdef KT
	entries_init_template();
#else
	entries_init_sorted();
#endif
	struct mtbl_writer *w = make_writer();
	for (size_t i = 0; i < N; i++) {
		mtbl_res r0 = mtbl_writer_add(w, E_key[i], E_kl[i], E_val[i], E_vl[i]);
		V_ASSERT(r0 == mtbl_res_success, "C08: increasing key refused");
	}
	uint8_t k[AKL ? AKL : 1], v[AVL ? AVL : 1];
	vn_bytes(k, AKL);
	vn_bytes(v, AVL);
	bool want = (N == 0) || v_cmp(k, AKL, E_key[N - 1], E_kl[N - 1]) > 0;
	uint64_t e0 = w->m.count_entries, k0 = w->m.bytes_keys, v0 = w->m.bytes_values, b0 = w->m.count_data_blocks,
		 d0 = w->m.bytes_data_blocks, p0 = w->pending_offset;
	size_t g0 = G_n, est0 = block_builder_current_size_estimate(w->data), iest0 = block_builder_current_size_estimate(w->index);
	size_t lk0 = ubuf_size(w->last_key);
	int c0 = crc_n;
	mtbl_res r = mtbl_writer_add(w, k, AKL, v, AVL);
	V_ASSERT((r == mtbl_res_success) == want, "C08: add succeeds iff the key is strictly greater than the last accepted key");
	if (r != mtbl_res_success) {
		V_ASSERT(w->m.count_entries == e0 && w->m.bytes_keys == k0 && w->m.bytes_values == v0 && w->m.count_data_blocks == b0
			 && w->m.bytes_data_blocks == d0 && w->pending_offset == p0 && G_n == g0 && crc_n == c0
			 && block_builder_current_size_estimate(w->data) == est0 && block_builder_current_size_estimate(w->index) == iest0
			 && ubuf_size(w->last_key) == lk0, "C08: a refused add changes nothing");
		if (N > 0)
			V_ASSERT(v_eq(ubuf_data(w->last_key), ubuf_size(w->last_key), E_key[N - 1], E_kl[N - 1]), "C08: remembered key intact after a refusal");
	} else {
		V_ASSERT(w->m.count_entries == e0 + 1 && w->m.bytes_keys == k0 + AKL && w->m.bytes_values == v0 + AVL, "C10: per-entry counters");
		V_ASSERT(v_eq(ubuf_data(w->last_key), ubuf_size(w->last_key), k, AKL), "C08: the accepted key becomes the remembered key (not the separator)");
		/* a further key between the separator and the accepted key must be refused:
		 * checked by asking the gate again with the same key (equal => refused) */
		mtbl_res r2 = mtbl_writer_add(w, k, AKL, v, AVL);
		V_ASSERT(r2 == mtbl_res_failure, "C08: equal key accepted right after a block cut");
	}
	V_WITNESS();
}

/* mtbl_writer_init: exclusive create */
void h_init_excl(void)
{
	open_result = vn_bool() ? -1 : G_fd;
	struct mtbl_writer *w = mtbl_writer_init("some/path.mtbl", NULL);
	V_ASSERT((open_flags_seen & (O_CREAT | O_EXCL)) == (O_CREAT | O_EXCL), "C08: mtbl_writer_init opens with O_CREAT|O_EXCL");
	V_ASSERT((open_flags_seen & O_ACCMODE) == O_WRONLY, "C08: opened for writing");
	V_ASSERT(open_nonexcl == 0, "C08: the target path was opened without O_CREAT|O_EXCL (an existing file could be opened)");
	if (open_result < 0) {
		V_ASSERT(w == NULL && G_writes == 0 && G_dups == 0, "C08: existing path: NULL and nothing written");
	} else {
		V_ASSERT(w != NULL && G_closes == 1, "writer opened; original descriptor closed");
	}
	V_WITNESS();
}

/* option setters */
void h_options(void)
{
	struct mtbl_writer_options *wo = mtbl_writer_options_init();
	V_ASSERT(wo->block_size == 8192 && wo->block_restart_interval == 16 && wo->compression_type == MTBL_COMPRESSION_ZLIB
		 && wo->compression_level == DEFAULT_COMPRESSION_LEVEL && wo->pool == NULL, "documented defaults");
	size_t bs = (size_t)vn_u64();
	mtbl_writer_options_set_block_size(wo, bs);
	V_ASSERT(wo->block_size == (bs < 1024 ? 1024 : bs), "block size clamped to >= 1024");
	int lv = vn_int();
	mtbl_writer_options_set_compression_level(wo, lv);
	V_ASSERT(wo->compression_level == lv, "level stored");
	unsigned t = (unsigned)vn_range(0, 5);
	mtbl_writer_options_set_compression(wo, (mtbl_compression_type)t);
	V_ASSERT((unsigned)wo->compression_type == t, "compression stored");
	mtbl_writer_options_destroy(&wo);
	V_ASSERT(wo == NULL, "options destroyed");
	V_WITNESS();
}

V_MAIN(V_E(h_write), V_E(h_gate_step), V_E(h_init_excl), V_E(h_options), V_E(h_init_opts))
