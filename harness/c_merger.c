/* Merger level (C04, C05): the real mtbl/merger.c + libmy/heap.c + iter.c +
 * source.c.  The merger's INPUT sources are harness-defined array sources
 * reached by direct calls (the six API names merger.c uses on its inputs are
 * renamed for the #include of merger.c -- CBMC resolves function pointers by
 * type and would otherwise make merger_iter its own callee); the merger's own
 * source/iterator is driven through the real mtbl_source_* / mtbl_iter_*.
 *
 * Array sources hand out ONE reused buffer per iterator and overwrite it on
 * every call (poison bytes when exhausted): buffers from an earlier call are
 * invalid, as the API allows any source to do.
 *
 * Shape: keys (concrete), counts per source, iterator kind, history; VALUES are
 * solver variables, so "each value folded exactly once" is decided for all
 * values (a value used twice or dropped changes the byte sum for some value). */
#include <stdlib.h>
#include <string.h>
#include "verif.h"
#include "mtbl-private.h"

#ifndef NS
#define NS 2
#endif
#ifndef CNT
#define CNT {2, 2}
#endif
#ifndef NE
#define NE 4			/* total entries */
#endif
#ifndef SKEYS
#define SKEYS {{1,'a',0},{1,'c',0},{1,'b',0},{1,'c',0}}	/* {len, bytes..} in source order */
#endif
#ifndef MODE
#define MODE 0			/* 0 merge=sum, 1 no merge, 2 no merge + dupsort, 3 merge fails on call FAILAT */
#endif
#ifndef FAILAT
#define FAILAT 1
#endif
#ifndef KIND
#define KIND 0			/* merger iterator: 0 iter, 1 get, 2 get_prefix, 3 get_range */
#endif
#ifndef CQ
#define CQ {0,0}
#define CQ2 {0,0}
#endif
#ifndef OPS
#define OPS "nnnnn"		/* n next, S seek to next concrete target */
#endif
#ifndef CTGT
#define CTGT {{0,0,0}}
#endif
#define KMAX 2

static const size_t S_cnt[NS ? NS : 1] = CNT;
static const uint8_t S_key[NE ? NE : 1][1 + KMAX] = SKEYS;
static uint8_t S_val[NE ? NE : 1];
static size_t S_first[NS ? NS : 1];

/* ---------------- array sources ---------------- */
struct asrc { size_t idx; };
struct asrc_iter {
	size_t src, pos, end;
	int kind, failed;
	uint8_t q[KMAX], q2[KMAX];
	size_t ql, ql2;
	uint8_t kbuf[KMAX + 1], vbuf[2];	/* the one buffer pair handed out */
};
static struct asrc A_src[NS ? NS : 1];
static int a_iters_open, a_iters_made;

static size_t a_lower(size_t s, const uint8_t *t, size_t tl)
{
	size_t first = S_first[s], n = S_cnt[s], idx = n;
	for (size_t i = n; i-- > 0;)
		if (v_cmp(&S_key[first + i][1], S_key[first + i][0], t, tl) >= 0)
			idx = i;
	return idx;
}
static struct asrc_iter *a_new(size_t s, int kind, const uint8_t *q, size_t ql, const uint8_t *q2, size_t ql2)
{
	struct asrc_iter *it = calloc(1, sizeof(*it));
	V_ASSUME(it != NULL);
	it->src = s;
	it->kind = kind;
	it->ql = ql;
	it->ql2 = ql2;
	for (size_t i = 0; i < KMAX; i++) {
		it->q[i] = (q && i < ql) ? q[i] : 0;
		it->q2[i] = (q2 && i < ql2) ? q2[i] : 0;
	}
	it->pos = kind ? a_lower(s, q, ql) : 0;
	a_iters_open++;
	a_iters_made++;
	return it;
}
static bool a_bound(const struct asrc_iter *it, size_t e)
{
	const uint8_t *k = &S_key[e][1];
	size_t kl = S_key[e][0];
	switch (it->kind) {
	case 1: return v_eq(k, kl, it->q, it->ql);
	case 2: return v_has_prefix(k, kl, it->q, it->ql);
	case 3: return v_cmp(k, kl, it->q2, it->ql2) <= 0;
	default: return true;
	}
}
/* the API as merger.c sees it on its inputs */
struct mtbl_iter *asrc_source_iter(const struct mtbl_source *s)
{
	return (struct mtbl_iter *)a_new(((const struct asrc *)s)->idx, 0, NULL, 0, NULL, 0);
}
/* like the reader, a lookup whose start lies after the source's last key yields no iterator at all */
#define A_NULL_IF_BEYOND(s, k, kl) do { size_t si_ = ((const struct asrc *)(s))->idx; if (a_lower(si_, (k), (kl)) >= S_cnt[si_]) return NULL; } while (0)
struct mtbl_iter *asrc_source_get(const struct mtbl_source *s, const uint8_t *k, size_t kl)
{
	A_NULL_IF_BEYOND(s, k, kl);
	return (struct mtbl_iter *)a_new(((const struct asrc *)s)->idx, 1, k, kl, NULL, 0);
}
struct mtbl_iter *asrc_source_get_prefix(const struct mtbl_source *s, const uint8_t *k, size_t kl)
{
	A_NULL_IF_BEYOND(s, k, kl);
	return (struct mtbl_iter *)a_new(((const struct asrc *)s)->idx, 2, k, kl, NULL, 0);
}
struct mtbl_iter *asrc_source_get_range(const struct mtbl_source *s, const uint8_t *k0, size_t l0, const uint8_t *k1, size_t l1)
{
	A_NULL_IF_BEYOND(s, k0, l0);
	return (struct mtbl_iter *)a_new(((const struct asrc *)s)->idx, 3, k0, l0, k1, l1);
}
mtbl_res asrc_iter_next(struct mtbl_iter *vit, const uint8_t **k, size_t *kl, const uint8_t **v, size_t *vl)
{
	struct asrc_iter *it = (struct asrc_iter *)vit;
	if (it == NULL)
		return mtbl_res_failure;
	size_t e = S_first[it->src] + it->pos;
	if (it->failed || it->pos >= S_cnt[it->src] || !a_bound(it, e)) {
		it->failed = 1;
		/* old buffers are dead: poison them */
		for (size_t i = 0; i <= KMAX; i++) it->kbuf[i] = 0xEE;
		it->vbuf[0] = 0xEE;
		return mtbl_res_failure;
	}
	for (size_t i = 0; i < KMAX; i++)
		it->kbuf[i] = (i < S_key[e][0]) ? S_key[e][1 + i] : 0xEE;
	it->vbuf[0] = S_val[e];
	*k = it->kbuf;
	*kl = S_key[e][0];
	*v = it->vbuf;
	*vl = 1;
	it->pos++;
	return mtbl_res_success;
}
mtbl_res asrc_iter_seek(struct mtbl_iter *vit, const uint8_t *t, size_t tl)
{
	struct asrc_iter *it = (struct asrc_iter *)vit;
	if (it == NULL)
		return mtbl_res_failure;
	it->pos = a_lower(it->src, t, tl);
	it->failed = 0;
	for (size_t i = 0; i <= KMAX; i++) it->kbuf[i] = 0xEE;
	it->vbuf[0] = 0xEE;
	return mtbl_res_success;
}
void asrc_iter_destroy(struct mtbl_iter **vit)
{
	if (*vit) {
		free(*vit);
		*vit = NULL;
		a_iters_open--;
	}
}

#include "mtbl/iter.c"
#include "mtbl/source.c"
#define mtbl_source_iter asrc_source_iter
#define mtbl_source_get asrc_source_get
#define mtbl_source_get_prefix asrc_source_get_prefix
#define mtbl_source_get_range asrc_source_get_range
#define mtbl_iter_next asrc_iter_next
#define mtbl_iter_seek asrc_iter_seek
#define mtbl_iter_destroy asrc_iter_destroy
#include "mtbl/merger.c"
#undef mtbl_source_iter
#undef mtbl_source_get
#undef mtbl_source_get_prefix
#undef mtbl_source_get_range
#undef mtbl_iter_next
#undef mtbl_iter_seek
#undef mtbl_iter_destroy

/* never used (mtbl_source_write is not called here) */
mtbl_res mtbl_writer_add(struct mtbl_writer *w, const uint8_t *k, size_t kl, const uint8_t *v, size_t vl)
{
	(void)w; (void)k; (void)kl; (void)v; (void)vl;
	return mtbl_res_failure;
}

/* ---------------- user callbacks ---------------- */
static int merge_calls, merge_bad_key;
static void merge_sum(void *clos, const uint8_t *key, size_t len_key,
		      const uint8_t *val0, size_t len_val0, const uint8_t *val1, size_t len_val1,
		      uint8_t **merged_val, size_t *len_merged_val)
{
	(void)clos; (void)key; (void)len_key;
	merge_calls++;
	if (len_val0 != 1 || len_val1 != 1)
		merge_bad_key = 1;
	if (MODE == 3 && merge_calls == FAILAT) {
		*merged_val = NULL;
		*len_merged_val = 0;
		return;
	}
	uint8_t *m = malloc(1);
	V_ASSUME(m != NULL);
	m[0] = (uint8_t)(val0[0] + val1[0]);
	*merged_val = m;
	*len_merged_val = 1;
}
static int dupsort_byte(void *clos, const uint8_t *key, size_t len_key,
			const uint8_t *val0, size_t len_val0, const uint8_t *val1, size_t len_val1)
{
	(void)clos; (void)key; (void)len_key; (void)len_val0; (void)len_val1;
	return (int)val0[0] - (int)val1[0];
}

/* ---------------- oracle: one table holding the merged content ---------------- */
struct oent { uint8_t k[KMAX]; size_t kl; uint8_t v; size_t mult; size_t src_entry[NE ? NE : 1]; };
static struct oent O[NE ? NE : 1];
static size_t O_n;		/* merge mode: distinct keys; no-merge mode: all entries sorted */
static uint8_t Q[KMAX] = CQ, Q2[KMAX] = CQ2;
#ifndef QL
#define QL 0
#define QL2 0
#endif
static size_t o_cur;
static int o_failed;

static void oracle_build(void)
{
	/* selection sort of all entries by key (stable: source order) */
	size_t order[NE ? NE : 1];
	bool used[NE ? NE : 1];
	for (size_t i = 0; i < NE; i++) used[i] = false;
	for (size_t r = 0; r < NE; r++) {
		long best = -1;
		for (size_t i = 0; i < NE; i++) {
			if (used[i]) continue;
			int c = (best < 0) ? -1 : v_cmp(&S_key[i][1], S_key[i][0], &S_key[best][1], S_key[best][0]);
			if (c == 0 && MODE == 2 && S_val[i] < S_val[best])
				c = -1;		/* dupsort: equal keys ordered by the user's value order */
			if (c < 0)
				best = (long)i;
		}
		order[r] = (size_t)best;
		used[best] = true;
	}
	O_n = 0;
	for (size_t r = 0; r < NE; r++) {
		size_t e = order[r];
		bool same = O_n > 0 && v_eq(O[O_n - 1].k, O[O_n - 1].kl, &S_key[e][1], S_key[e][0]);
		if ((MODE == 0 || MODE == 3) && same) {
			O[O_n - 1].v = (uint8_t)(O[O_n - 1].v + S_val[e]);
			O[O_n - 1].src_entry[O[O_n - 1].mult++] = e;
		} else {
			for (size_t i = 0; i < KMAX; i++) O[O_n].k[i] = (i < S_key[e][0]) ? S_key[e][1 + i] : 0;
			O[O_n].kl = S_key[e][0];
			O[O_n].v = S_val[e];
			O[O_n].mult = 1;
			O[O_n].src_entry[0] = e;
			O_n++;
		}
	}
}
static bool o_bound(size_t i)
{
	switch (KIND) {
	case 1: return v_eq(O[i].k, O[i].kl, Q, QL);
	case 2: return v_has_prefix(O[i].k, O[i].kl, Q, QL);
	case 3: return v_cmp(O[i].k, O[i].kl, Q2, QL2) <= 0;
	default: return true;
	}
}
static void o_seek(const uint8_t *t, size_t tl)
{
	size_t idx = O_n;
	for (size_t i = O_n; i-- > 0;)
		if (v_cmp(O[i].k, O[i].kl, t, tl) >= 0)
			idx = i;
	o_cur = idx;
	o_failed = 0;
}

static struct mtbl_merger *make_merger(void)
{
	size_t f = 0;
	for (size_t s = 0; s < NS; s++) {
		S_first[s] = f;
		f += S_cnt[s];
		A_src[s].idx = s;
	}
	for (size_t i = 0; i < NE; i++)
		S_val[i] = vn_u8();
#ifdef CVALS
	{
		static const uint8_t cv[NE ? NE : 1] = CVALS;	/* dupsort shapes: concrete values */
		for (size_t i = 0; i < NE; i++) S_val[i] = cv[i];
	}
#endif
	oracle_build();
	struct mtbl_merger_options *mo = mtbl_merger_options_init();
	if (MODE == 0 || MODE == 3)
		mtbl_merger_options_set_merge_func(mo, merge_sum, NULL);
	if (MODE == 2)
		mtbl_merger_options_set_dupsort_func(mo, dupsort_byte, NULL);
	struct mtbl_merger *m = mtbl_merger_init(mo);
	mtbl_merger_options_destroy(&mo);
	for (size_t s = 0; s < NS; s++)
		mtbl_merger_add_source(m, (const struct mtbl_source *)&A_src[s]);
	return m;
}

static const uint8_t *last_k, *last_v;
static size_t last_kl;
static long last_idx = -1;

void h_merge(void)
{
	verif_stop_is_violation = 1;
	struct mtbl_merger *m = make_merger();
	const struct mtbl_source *ms = mtbl_merger_source(m);
	struct mtbl_iter *it;
	switch (KIND) {
	case 1: o_seek(Q, QL); it = mtbl_source_get(ms, Q, QL); break;
	case 2: o_seek(Q, QL); it = mtbl_source_get_prefix(ms, Q, QL); break;
	case 3: o_seek(Q, QL); it = mtbl_source_get_range(ms, Q, QL, Q2, QL2); break;
	default: o_cur = 0; o_failed = 0; it = mtbl_source_iter(ms); break;
	}
	static const char ops[] = OPS;
	static const uint8_t tg[][1 + KMAX] = CTGT;
	size_t nt = 0;
	int expect_merge_calls = 0, failed_merge = 0;
	for (size_t i = 0; i + 1 < sizeof(ops); i++) {
		if (last_idx >= 0) {
			/* buffers handed out stay intact until the next call on the iterator */
			V_ASSERT(v_eq(last_k, last_kl, O[last_idx].k, O[last_idx].kl), "C05: key buffer changed before the next call");
			if (MODE == 0)
				V_ASSERT(last_v[0] == O[last_idx].v, "C05: value buffer changed before the next call");
		}
		if (ops[i] == 'S') {
			mtbl_res sr = mtbl_iter_seek(it, &tg[nt][1], tg[nt][0]);
			V_ASSERT(sr == mtbl_res_success || it == NULL, "C05: merger seek reports failure");
			o_seek(&tg[nt][1], tg[nt][0]);
			nt++;
			last_idx = -1;
			continue;
		}
		const uint8_t *k = NULL, *v = NULL;
		size_t kl = 0, vl = 0;
		mtbl_res r = mtbl_iter_next(it, &k, &kl, &v, &vl);
		long want = -1;
		if (!o_failed && o_cur < O_n && o_bound(o_cur))
			want = (long)o_cur;
		else
			o_failed = 1;
		if (MODE == 3 && want >= 0 && !failed_merge) {
			/* the key whose fold needs the failing merge call must fail */
			int calls_needed = (int)O[want].mult - 1;
			if (expect_merge_calls < FAILAT && expect_merge_calls + calls_needed >= FAILAT) {
				V_ASSERT(r == mtbl_res_failure, "C04: merge function failed but the key was still produced");
				failed_merge = 1;
				break;
			}
			expect_merge_calls += calls_needed;
		}
		if (want < 0) {
			V_ASSERT(r == mtbl_res_failure, "C04/C05: entry returned where the merged table has none");
			last_idx = -1;
		} else {
			V_ASSERT(r == mtbl_res_success, "C04/C05: merger failed although an entry remains");
			V_ASSERT(v_eq(k, kl, O[want].k, O[want].kl), "C04/C05: wrong key (order / dropped or repeated key)");
			V_ASSERT(vl == 1, "C04: value length");
			if (MODE == 0 || MODE == 3 || MODE == 2) {
				V_ASSERT(v[0] == O[want].v, "C04: value is not the fold of exactly the values the sources hold (or dupsort order wrong)");
			} else {
				/* no merge, no dupsort: equal keys may come in any order (<= 2 per key in the shapes) */
				bool ok = v[0] == O[want].v;
				if (want + 1 < (long)O_n && v_eq(O[want].k, O[want].kl, O[want + 1].k, O[want + 1].kl)) ok = ok || v[0] == O[want + 1].v;
				if (want > 0 && v_eq(O[want].k, O[want].kl, O[want - 1].k, O[want - 1].kl)) ok = ok || v[0] == O[want - 1].v;
				V_ASSERT(ok, "C04: emitted value is not one of the values stored for that key");
			}
			last_k = k; last_kl = kl; last_v = v; last_idx = want;
			o_cur++;
		}
	}
	mtbl_iter_destroy(&it);
	V_ASSERT(a_iters_open == 0, "C18: merger iterator destroys the per-source iterators it opened");
	mtbl_merger_destroy(&m);
	V_ASSERT(!merge_bad_key, "C04: merge function called with a malformed value");
	V_WITNESS();
}

V_MAIN(V_E(h_merge))
