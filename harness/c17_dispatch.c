/* C17 (c): run-time dispatch in libmy/crc32c.c and the mtbl_crc32c wrapper.
 * crc32c.c and crc32c_wrap.c are #included; the two implementations and the
 * CPU probe are marker stubs, so the query is purely about which one runs. */
#include <stdlib.h>
#include "verif.h"

static int cpu_has_sse42;
static int calls_sse, calls_slice, calls_probe;
static const uint8_t *seen_buf;
static size_t seen_len;

#include "libmy/crc32c.c"
#include "mtbl/crc32c_wrap.c"

bool my_crc32c_sse42_supported(void) { calls_probe++; return cpu_has_sse42; }
uint32_t my_crc32c_sse42(const uint8_t *b, size_t n) { calls_sse++; seen_buf = b; seen_len = n; return 0x11110000u; }
uint32_t my_crc32c_slicing(const uint8_t *b, size_t n) { calls_slice++; seen_buf = b; seen_len = n; return 0x22220000u; }

void h_dispatch(void)
{
	cpu_has_sse42 = vn_bool();
	bool ctor_ran = vn_bool();	/* constructor may or may not have run before the first call */
	uint8_t buf[4];
	size_t n = (size_t)vn_range(0, 4);
	/* state before the constructor has run (a call from another constructor):
	 * the pointer still holds its static initialiser */
	my_crc32c = my_crc32c_first;
	calls_sse = calls_slice = 0;
	if (ctor_ran)
		my_crc32c_runtime_detection();
	uint32_t r = mtbl_crc32c(buf, n);
	V_ASSERT(r == (cpu_has_sse42 ? 0x11110000u : 0x22220000u), "C17: mtbl_crc32c runs the implementation matching the CPU");
	V_ASSERT(calls_sse + calls_slice == 1, "C17: exactly one implementation call per request");
	V_ASSERT(seen_buf == buf && seen_len == n, "C17: buffer and length forwarded unchanged");
	V_ASSERT(my_crc32c == (cpu_has_sse42 ? my_crc32c_sse42 : my_crc32c_slicing), "C17: pointer installed after first use");
	r = mtbl_crc32c(buf, n);
	V_ASSERT(r == (cpu_has_sse42 ? 0x11110000u : 0x22220000u) && calls_sse + calls_slice == 2, "C17: later calls go straight to the implementation");
	V_WITNESS();
}

V_MAIN(V_E(h_dispatch))
