/* C11 (and C01/C09): location and width of the restart array for EVERY block size, including
 * blocks above 4 GiB, which no enumerated file shape can reach.
 *
 * h_estimate_all_sizes: see below.
 *
 * h_block_init_consistent: block_init() on an arbitrary trailer (symbolic size S, symbolic count):
 * either the block is rejected (size 0) or its geometry is self-consistent and every
 * get_restart_point(i), i < count, reads inside the block (CBMC's bounds checks). */
#include <stdlib.h>
#include <string.h>
#include "verif.h"

#include "mtbl/block_builder.c"
#include "mtbl/block.c"

#ifndef NR
#define NR 2
#endif
#define EMAX (1ull << 36)

/* writer side, arithmetic only: the size the builder announces for an entry area of E bytes and NR
 * restarts uses 8-byte restart slots iff E > UINT32_MAX -- the same geometry block_init() derives
 * from the total size (h_block_init_consistent).  block_builder_finish() itself is NOT run for
 * E > 4 GiB: writing into an object of solver-chosen size gave a spurious counterexample with
 * CBMC's memcpy model (did not replay), ran out of 12 GB with a byte-loop memcpy, "array too large
 * for flattening" with a constant 4 GiB object, and no verdict in 10 min with the z3 back end. */
void h_estimate_all_sizes(void)
{
	verif_stop_is_violation = 1;
	size_t E = (size_t)vn_range(0, EMAX);
	struct block_builder *b = my_calloc(1, sizeof(*b));
	b->block_restart_interval = 1;
	b->last_key = ubuf_init(1);
	b->restarts = uint64_vec_init(NR);
	for (size_t i = 0; i < NR; i++)
		uint64_vec_add(b->restarts, i);
	b->buf = ubuf_init(1);
	b->buf->_n = E;				/* white-box: E bytes of entries; the bytes are never touched */
	size_t w = (E > UINT32_MAX) ? 8 : 4;
	V_ASSERT(block_builder_current_size_estimate(b) == E + NR * w + 4, "C09/C11: size estimate = entries + restart array of the width block_init() will infer + count");
	/* and block_init() maps that total size and count back to E (reader side of the same geometry) */
	size_t S = E + NR * w + 4;
	uint8_t *data = malloc(S);
	V_ASSUME(data != NULL);
	data[S - 4] = NR; data[S - 3] = 0; data[S - 2] = 0; data[S - 1] = 0;
	struct block *blk = block_init(data, S, false);
	V_ASSERT(blk->size == S && blk->restart_offset == E, "C11: block_init() finds the restart array of a builder-sized block at the end of the entry area, for every size");
	block_destroy(&blk);
	free(data);
	b->buf->_n = 0;
	block_builder_destroy(&b);
	V_WITNESS();
}

void h_block_init_consistent(void)
{
	verif_stop_is_violation = 1;
	size_t S = (size_t)vn_range(0, EMAX);
	/* sizes 4..7 cannot hold a restart and the count: block.c stops on its own consistency
	 * assertion (num_restarts), which C19 allows and no well-formed file contains */
	V_ASSUME(S < 4 || S >= 8);
	uint8_t *data = malloc(S ? S : 1);
	V_ASSUME(data != NULL);
	uint32_t cnt = vn_u32();
	if (S >= 4) {
		uint8_t c[4] = { (uint8_t)cnt, (uint8_t)(cnt >> 8), (uint8_t)(cnt >> 16), (uint8_t)(cnt >> 24) };
		data[S - 4] = c[0]; data[S - 3] = c[1]; data[S - 2] = c[2]; data[S - 1] = c[3];
	}
	struct block *blk = block_init(data, S, false);
	if (blk->size != 0) {
		V_ASSERT(blk->size == S && S >= 4, "C11: accepted block keeps its size");
		size_t w = blk->restart_offset > UINT32_MAX ? 8 : 4;
		V_ASSERT(blk->restart_offset <= S - 4, "C11: restart array starts inside the block");
		V_ASSERT(blk->restart_offset + (size_t)cnt * w + 4 == S, "C11: entries + restart array (width by location) + count = block size");
		if (S >= 8 && cnt > 0) {
			struct block_iter *bi = block_iter_init(blk);
			uint32_t i = vn_u32();
			V_ASSUME(i < cnt);
			(void)get_restart_point(bi, i);	/* must read inside the object: CBMC's pointer checks */
			block_iter_destroy(&bi);
		}
	}
	block_destroy(&blk);
	free(data);
	V_WITNESS();
}

V_MAIN(V_E(h_estimate_all_sizes), V_E(h_block_init_consistent))
