/* Reader level (C02, C03, C11, C12 code obligations, reader half of C01):
 * the real mtbl/reader.c (#included, environment stubbed) + block.c,
 * metadata.c, iter.c, source.c, varint.c, fixed.c (linked) run on a file image
 * laid out by the reference encoder (ref_encode.h). */
#include "ref_encode.h"
#include "fileenv_reader.h"
#include "mtbl/reader.c"
#include "fileenv_reader_undef.h"

#ifndef KIND
#define KIND 0		/* 0 iter, 1 get, 2 get_prefix, 3 get_range */
#endif
#ifndef QL
#define QL 1		/* length of the query key / prefix / range start */
#endif
#ifndef QL2
#define QL2 1		/* length of the range end */
#endif
#ifndef OPS
#define OPS "nnn"	/* history: n = next, s = seek(next target), o = next on a second iterator */
#endif
#ifndef T0L
#define T0L 1
#endif
#ifndef T1L
#define T1L 1
#endif
#ifndef VERIFY
#define VERIFY 0
#endif
#define QMAX 4

/* ---- CRC as an uninterpreted function with a call log ---- */
static int crc_seen[NB + 1], crc_other;
uint32_t mtbl_crc32c(const uint8_t *buf, size_t len)
{
	for (size_t s = 0; s <= NB; s++)
		if (buf == R_file + R_payload_off[s] && len == R_payload_len[s]) {
			crc_seen[s]++;
#ifdef DAMAGE_BLOCK
			/* C12: this block's stored bytes (or its checksum field) were altered in a way
			 * CRC-32C detects: the recomputed value differs from the stored one */
			if (s == DAMAGE_BLOCK) {
				uint32_t d = vn_u32();
				V_ASSUME(d != 0);
				return R_crc[s] ^ d;
			}
#endif
			return R_crc[s];
		}
	crc_other++;
	return vn_u32();
}

/* ---- ghost identity codec: stored image == plain block; records what was asked ---- */
static int dec_calls, dec_bad_alg;
mtbl_res mtbl_decompress(mtbl_compression_type t, const uint8_t *in, const size_t n, uint8_t **out, size_t *on)
{
	dec_calls++;
	if ((int)t != COMP)
		dec_bad_alg = 1;
	*out = malloc(n ? n : 1);
	V_ASSUME(*out != NULL);
	for (size_t i = 0; i < 64; i++)
		if (i < n)
			(*out)[i] = in[i];
	*on = n;
	return mtbl_res_success;
}

/* ---- oracle: the table as a sorted list + the iterator's bound ---- */
static uint8_t Q[QMAX], Q2[QMAX];
static size_t o_cur;
static int o_failed;

static bool o_bound(size_t i)
{
	switch (KIND) {
	case 1: return v_eq(E_key[i], E_kl[i], Q, QL);
	case 2: return v_has_prefix(E_key[i], E_kl[i], Q, QL);
	case 3: return v_cmp(E_key[i], E_kl[i], Q2, QL2) <= 0;
	default: return true;
	}
}
static void o_seek(const uint8_t *t, size_t tl)
{
	o_cur = entries_lower_bound(t, tl);
	o_failed = 0;
}
/* returns index of the entry the next call must yield, or -1 for failure */
static long o_next(void)
{
	if (o_failed)
		return -1;
	if (o_cur >= N || !o_bound(o_cur)) {
		o_failed = 1;
		return -1;
	}
	return (long)o_cur++;
}

static struct mtbl_reader *open_reader(void)
{
	ref_build_file();
	fe_file = R_file;
	fe_len = R_file_len;
#ifdef NO_TRAILER
	{
		/* white box: the state mtbl_reader_init_fd() leaves behind for this file (that it does
		 * so is what h_drain, run through the real constructor, and C19 check) */
		struct mtbl_reader *r = my_calloc(1, sizeof(*r));
		r->opt.verify_checksums = VERIFY;
		r->len_data = R_file_len;
		r->data = R_file;
		fe_n_mmap++;
		r->m.file_version = (VER == 1) ? MTBL_FORMAT_V1 : MTBL_FORMAT_V2;
		r->m.index_block_offset = R_index_off;
		r->m.compression_algorithm = COMP;
		r->m.count_entries = N;
		r->m.count_data_blocks = NB;
		r->m.bytes_data_blocks = R_bytes_data;
		r->m.bytes_index_block = R_bytes_index;
		if (VERIFY)
			crc_seen[NB] = 1;
		r->index = block_init(R_file + R_payload_off[NB], R_payload_len[NB], false);
		r->source = mtbl_source_init(reader_iter, reader_get, reader_get_prefix, reader_get_range, NULL, r);
		return r;
	}
#endif
	struct mtbl_reader_options *ro = mtbl_reader_options_init();
	mtbl_reader_options_set_verify_checksums(ro, VERIFY);
	mtbl_reader_options_set_madvise_random(ro, vn_bool());
	struct mtbl_reader *r = mtbl_reader_init_fd(5, ro);
	mtbl_reader_options_destroy(&ro);
#if defined(DAMAGE_BLOCK) && VERIFY
	if (DAMAGE_BLOCK == NB)
		V_ASSERT(0, "C12: reader opened (with verify_checksums) although the index block's checksum does not match");
#endif
	V_ASSERT(r != NULL, "C11: a well-formed file does not open");
	return r;
}

static void close_reader(struct mtbl_reader **r)
{
	mtbl_reader_destroy(r);
	V_ASSERT(fe_n_mmap == 1 && fe_n_munmap == 1 && !fe_bad_unmap, "C18: mapping released exactly once");
	V_ASSERT(!dec_bad_alg, "C01/C11: decompressor asked for an algorithm other than the trailer's");
	if (VERIFY) {
		V_ASSERT(crc_seen[NB] == 1, "C12: index block checksum compared at open");
		V_ASSERT(crc_other == 0, "C12: checksum computed over a range that is not a block's stored bytes");
	}
#if defined(VERIF_NATIVE) || !defined(FILE_LEN)
	free(R_file);
#endif
}

/* the last (key,value) handed out must still read the same just before the
 * next call on that iterator */
static const uint8_t *last_k, *last_v;
static size_t last_kl, last_vl;
static long last_idx = -1;
static void check_last_buffers(void)
{
	if (last_idx >= 0) {
		V_ASSERT(v_eq(last_k, last_kl, E_key[last_idx], E_kl[last_idx]), "C03: key buffer changed before the next call on the iterator");
		V_ASSERT(v_eq(last_v, last_vl, E_val[last_idx], E_vl[last_idx]), "C03: value buffer changed before the next call on the iterator");
	}
}

static void do_next(struct mtbl_iter *it)
{
	const uint8_t *k = NULL, *v = NULL;
	size_t kl = 0, vl = 0;
	check_last_buffers();
	long want = o_next();
	mtbl_res res = mtbl_iter_next(it, &k, &kl, &v, &vl);
	if (want < 0) {
		V_ASSERT(res == mtbl_res_failure, "next returned an entry where the table has none for this iterator");
		last_idx = -1;
	} else {
		V_ASSERT(res == mtbl_res_success, "next failed although a matching entry remains");
		V_ASSERT(v_eq(k, kl, E_key[want], E_kl[want]), "next returned the wrong key");
		V_ASSERT(v_eq(v, vl, E_val[want], E_vl[want]), "next returned the wrong value");
		if (VERIFY) {
			/* C12 (i): the block this entry came from had its checksum compared */
			size_t b = 0;
			for (size_t j = 0; j < NB; j++)
				if ((size_t)want >= R_blk_first[j])
					b = j;
			V_ASSERT(crc_seen[b] >= 1, "C12: entry returned from a block whose checksum was never compared");
#ifdef DAMAGE_BLOCK
			V_ASSERT(b != DAMAGE_BLOCK, "C12: entry decoded from a block whose checksum does not match");
#endif
		}
		last_k = k; last_kl = kl; last_v = v; last_vl = vl; last_idx = want;
	}
}

/* concrete targets / queries (shape) for the part of a history that only builds the state */
#ifdef CTGT
static const uint8_t C_tgt[][1 + QMAX] = CTGT;	/* {len, bytes...} per 'S' op */
#endif
static struct mtbl_iter *open_iter(struct mtbl_reader *r)
{
	const struct mtbl_source *s = mtbl_reader_source(r);
#ifdef CQ
	{
		static const uint8_t cq[QMAX] = CQ, cq2[QMAX] = CQ2;
		for (size_t i = 0; i < QMAX; i++) { Q[i] = cq[i]; Q2[i] = cq2[i]; }
	}
#else
	vn_bytes(Q, QL);
	vn_bytes(Q2, QL2);
#endif
	struct mtbl_iter *it;
	fe_in_create = 1;
#ifdef NULLCASE
	/* the other half: queries beyond the last index key.  The constructor must return NULL
	 * (or an iterator that yields nothing) */
	fe_cut_null_create = 0;
	V_ASSUME(v_cmp(Q, QL, R_sep[NB - 1], R_sepl[NB - 1]) > 0);
#else
	/* main case: query at or before the last index key (the rest: NULLCASE queries) */
	if (KIND != 0) {
		fe_cut_null_create = 1;
		V_ASSUME(v_cmp(Q, QL, R_sep[NB - 1], R_sepl[NB - 1]) <= 0);
	}
#endif
	switch (KIND) {
	case 1:
		o_seek(Q, QL);
		it = mtbl_source_get(s, Q, QL);
		break;
	case 2:
		o_seek(Q, QL);
		it = mtbl_source_get_prefix(s, Q, QL);
		break;
	case 3:
		o_seek(Q, QL);
		it = mtbl_source_get_range(s, Q, QL, Q2, QL2);
		break;
	default:
		o_cur = 0;
		o_failed = 0;
		it = mtbl_source_iter(s);
		break;
	}
	fe_in_create = 0;
	return it;
}

/* history of next / seek calls given by OPS */
void h_history(void)
{
#ifdef DAMAGE_BLOCK
	verif_stop_is_violation = 0;	/* C12: "the process stops instead" */
#else
	verif_stop_is_violation = 1;
#endif
	struct mtbl_reader *r = open_reader();
	struct mtbl_iter *it = open_iter(r);
	struct mtbl_iter *other = NULL;
	size_t other_cur = 0;
	static const char ops[] = OPS;
	static const size_t tlen[2] = { T0L, T1L };
	uint8_t tgt[2][QMAX];
	int nseek = 0, ncseek = 0;
	(void)ncseek;
	for (size_t i = 0; i + 1 < sizeof(ops); i++) {
		if (ops[i] == 'n') {
			do_next(it);
#ifdef CTGT
		} else if (ops[i] == 'S') {
			/* seek to a concrete (shape) target: builds the pre-state */
			size_t tl = C_tgt[ncseek][0];
			check_last_buffers();
			last_idx = -1;
			mtbl_res sr = mtbl_iter_seek(it, &C_tgt[ncseek][1], tl);
			V_ASSERT(sr == mtbl_res_success || it == NULL, "seek reports failure on a valid reader iterator");
			o_seek(&C_tgt[ncseek][1], tl);
			ncseek++;
#endif
		} else if (ops[i] == 's') {
			size_t tl = tlen[nseek];
			vn_bytes(tgt[nseek], tl);
			/* precondition of C03: target at or after the start of the iterator's range */
			if (KIND != 0)
				V_ASSUME(v_cmp(tgt[nseek], tl, Q, QL) >= 0);
			check_last_buffers();
			last_idx = -1;
			mtbl_res sr = mtbl_iter_seek(it, tgt[nseek], tl);
			V_ASSERT(sr == mtbl_res_success || it == NULL, "seek reports failure on a valid reader iterator");
			o_seek(tgt[nseek], tl);
			nseek++;
		} else if (ops[i] == 'o') {
			/* work on another iterator of the same reader in between */
			const uint8_t *k, *v; size_t kl, vl;
			if (other == NULL)
				other = mtbl_source_iter(mtbl_reader_source(r));
			mtbl_res res = mtbl_iter_next(other, &k, &kl, &v, &vl);
			if (other_cur < N) {
				V_ASSERT(res == mtbl_res_success && v_eq(k, kl, E_key[other_cur], E_kl[other_cur]), "C03: second iterator disturbed");
				other_cur++;
			} else {
				V_ASSERT(res == mtbl_res_failure, "C03: second iterator past the end");
			}
		}
	}
	check_last_buffers();
	mtbl_iter_destroy(&it);
	mtbl_iter_destroy(&other);
	close_reader(&r);
	V_WITNESS();
}

/* full drain + sticky failure (C01 reader half, C02 lookups, C11) */
void h_drain(void)
{
#ifdef DAMAGE_BLOCK
	verif_stop_is_violation = 0;
#else
	verif_stop_is_violation = 1;
#endif
	struct mtbl_reader *r = open_reader();
	struct mtbl_iter *it = open_iter(r);
	for (size_t i = 0; i < N + 2; i++)
		do_next(it);
	/* trailer accessors (C10 reader side) */
	const struct mtbl_metadata *m = mtbl_reader_metadata(r);
	V_ASSERT(mtbl_metadata_count_entries(m) == N && mtbl_metadata_count_data_blocks(m) == NB, "C10: accessors return the trailer's counts");
	V_ASSERT(mtbl_metadata_index_block_offset(m) == R_index_off && mtbl_metadata_bytes_data_blocks(m) == R_bytes_data
		 && mtbl_metadata_bytes_index_block(m) == R_bytes_index, "C10: accessors return the trailer's offsets/sizes");
	V_ASSERT(mtbl_metadata_file_version(m) == (VER == 1 ? MTBL_FORMAT_V1 : MTBL_FORMAT_V2), "C11: format version recognised from the magic");
	V_ASSERT(mtbl_metadata_compression_algorithm(m) == COMP, "C10: compression algorithm accessor");
	mtbl_iter_destroy(&it);
	close_reader(&r);
	V_WITNESS();
}

V_MAIN(V_E(h_history), V_E(h_drain))
