/* C10: src/mtbl_info.c print_info() (#included, main renamed): every integer line it prints carries
 * the value of the matching mtbl_metadata_* accessor.  open/fstat/reader are stubs handing out a
 * metadata struct with nine symbolic fields; printf is captured as (format, first integer argument).
 * The floating-point percentage columns are not checked (not part of the property). */
#include <stdarg.h>
#include <stdio.h>
#include <string.h>
#include <sys/stat.h>
#include "verif.h"
#include "mtbl-private.h"

static struct mtbl_metadata M;
static int rd_open;
struct mtbl_reader *mtbl_reader_init_fd(int fd, const struct mtbl_reader_options *o) { (void)fd; (void)o; rd_open++; return (struct mtbl_reader *)&M; }
void mtbl_reader_destroy(struct mtbl_reader **r) { if (*r) { rd_open--; *r = NULL; } }
const struct mtbl_metadata *mtbl_reader_metadata(struct mtbl_reader *r) { (void)r; return &M; }
const char *mtbl_compression_type_to_str(mtbl_compression_type t) { return (t == MTBL_COMPRESSION_ZLIB) ? "zlib" : NULL; }

#define NLINES 16
static const char *L_fmt[NLINES];
static uint64_t L_val[NLINES];
static int nlines;
static int verif_printf(const char *fmt, ...)
{
	va_list ap;
	va_start(ap, fmt);
	if (nlines < NLINES) {
		L_fmt[nlines] = fmt;
		/* first conversion: %s (file name), %'zd / %'PRIu64 (64-bit), %u, or none */
		const char *p = strchr(fmt, '%');
		L_val[nlines] = 0;
		if (p && p[1] == 's') (void)va_arg(ap, const char *);
		else if (p && p[1] == 'u') L_val[nlines] = va_arg(ap, unsigned);
		else if (p && p[1] == '\'' && p[2] != '.') L_val[nlines] = va_arg(ap, uint64_t);
	}
	nlines++;
	va_end(ap);
	return 0;
}
static int verif_open(const char *p, int fl, ...) { (void)p; (void)fl; return 5; }
static int verif_fstat(int fd, struct stat *ss) { (void)fd; ss->st_size = (off_t)vn_range(512, 1u << 30); return 0; }
static int verif_puts(const char *s) { (void)s; nlines++; return 0; }
static int verif_putchar(int c) { return c; }
#define printf verif_printf
#define fprintf(...) ((void)0)
#define perror(s) ((void)0)
#define puts verif_puts
#define putchar verif_putchar
#define open verif_open
#define fstat verif_fstat
#define main mtbl_info_main
#include "src/mtbl_info.c"
#undef main
#undef printf

static uint64_t value_after(const char *label)
{
	for (int i = 0; i < NLINES; i++)
		if (i < nlines && L_fmt[i] && strncmp(L_fmt[i], label, strlen(label)) == 0)
			return L_val[i];
	V_ASSERT(0, "C10: mtbl_info does not print this statistic at all");
	return 0;
}

void h_info(void)
{
	verif_stop_is_violation = 1;
	M.file_version = MTBL_FORMAT_V2;
	M.index_block_offset = vn_u64(); M.data_block_size = vn_u64(); M.compression_algorithm = vn_range(0, 7);
	M.count_entries = vn_u64(); M.count_data_blocks = vn_u64(); M.bytes_data_blocks = vn_u64();
	M.bytes_index_block = vn_u64(); M.bytes_keys = vn_u64(); M.bytes_values = vn_u64();
	V_ASSUME(M.bytes_keys + M.bytes_values >= M.bytes_keys);	/* no wrap in the tool's own sum */
	print_info("t.mtbl");
	V_ASSERT(value_after("index block offset:") == M.index_block_offset, "C10: mtbl_info index block offset");
	V_ASSERT(value_after("index bytes:") == M.bytes_index_block, "C10: mtbl_info index bytes");
	V_ASSERT(value_after("data block bytes") == M.bytes_data_blocks, "C10: mtbl_info data block bytes");
	V_ASSERT(value_after("data block size:") == M.data_block_size, "C10: mtbl_info data block size");
	V_ASSERT(value_after("data block count") == M.count_data_blocks, "C10: mtbl_info data block count");
	V_ASSERT(value_after("entry count:") == M.count_entries, "C10: mtbl_info entry count");
	V_ASSERT(value_after("key bytes:") == M.bytes_keys, "C10: mtbl_info key bytes");
	V_ASSERT(value_after("value bytes:") == M.bytes_values, "C10: mtbl_info value bytes");
	if (M.compression_algorithm != MTBL_COMPRESSION_ZLIB)
		V_ASSERT(value_after("%u") == M.compression_algorithm, "C10: mtbl_info prints the numeric id of an algorithm without a name");
	V_ASSERT(rd_open == 0, "C18: mtbl_info leaves the reader open");
	V_WITNESS();
}
V_MAIN(V_E(h_info))
