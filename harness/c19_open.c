/* C19: mtbl_reader_init_fd / mtbl_reader_init on arbitrary file content.
 * Real code: mtbl/reader.c (#included), metadata.c, block.c, varint.c,
 * fixed.c, source.c, iter.c (linked).  The file is an exactly-LEN-byte heap
 * object whose every byte is symbolic; any access outside it is a CBMC
 * pointer-check failure (ASan heap-buffer-overflow in the native replay). */
#include <sys/mman.h>
#include <sys/stat.h>
#include <fcntl.h>
#include <stdlib.h>
#include <string.h>
#include <unistd.h>
#include "verif.h"

#ifndef LEN
#define LEN 540
#endif
#ifndef VERIFY
#define VERIFY 0
#endif

static uint8_t *file_bytes;		/* exactly LEN bytes */
static int n_mmap, n_munmap, n_open, n_close, bad_unmap, bad_crc_range, bad_madvise;

static int verif_fstat(int fd, struct stat *ss)
{
	(void)fd;
	/* no memset: CBMC would lose constant propagation of st_size through the array_set model */
	ss->st_size = LEN;
	return 0;
}
static void *verif_mmap(void *addr, size_t len, int prot, int flags, int fd, off_t off)
{
	(void)addr; (void)prot; (void)flags; (void)fd; (void)off;
	if (vn_bool())
		return MAP_FAILED;
	if (len != LEN)
		bad_unmap = 1;
	n_mmap++;
	return file_bytes;
}
static int verif_munmap(void *addr, size_t len)
{
	if (addr != file_bytes || len != LEN)
		bad_unmap = 1;
	n_munmap++;
	return 0;
}
static int verif_open(const char *path, int flags, ...)
{
	(void)path; (void)flags;
	if (vn_bool())
		return -1;
	n_open++;
	return 7;
}
static int verif_close(int fd)
{
	if (fd != 7)
		bad_unmap = 1;
	n_close++;
	return 0;
}
static int verif_posix_madvise(void *addr, size_t len, int advice)
{
	(void)advice;
	if (addr != file_bytes || len > LEN)
		bad_madvise = 1;
	return vn_int();
}
static char env_val[4];
static char *verif_getenv(const char *name)
{
	(void)name;
	unsigned k = (unsigned)vn_range(0, 3);
	if (k == 0)
		return NULL;
	env_val[0] = (k == 1) ? '0' : (k == 2) ? '1' : 'x';
	env_val[1] = 0;
	return env_val;
}

#define fstat verif_fstat
#define mmap verif_mmap
#define munmap verif_munmap
#define open verif_open
#define close verif_close
#define posix_madvise verif_posix_madvise
#define getenv verif_getenv
#include "mtbl/reader.c"
#undef fstat
#undef mmap
#undef munmap
#undef open
#undef close
#undef posix_madvise
#undef getenv

/* CRC is not the subject here: any value, but the range handed to it must be
 * readable file bytes */
uint32_t mtbl_crc32c(const uint8_t *buf, size_t len)
{
	if (len > LEN || buf < file_bytes || buf > file_bytes + LEN || (size_t)(file_bytes + LEN - buf) < len)
		bad_crc_range = 1;
#ifdef VERIF_NATIVE
	/* touch every byte so ASan sees an out-of-range checksum request */
	volatile uint8_t sink = 0;
	for (size_t i = 0; i < len && i < (1u << 20); i++)
		sink ^= buf[i];
	(void)sink;
#endif
	return vn_u32();
}
/* never reached from open(); present for the link */
mtbl_res mtbl_decompress(mtbl_compression_type t, const uint8_t *in, const size_t n, uint8_t **out, size_t *on)
{
	(void)t; (void)in; (void)n; (void)out; (void)on;
	return mtbl_res_failure;
}

static void make_file(void)
{
	file_bytes = malloc(LEN ? LEN : 1);
	V_ASSUME(file_bytes != NULL);
	for (size_t i = 0; i < LEN; i++)
		file_bytes[i] = vn_u8();
#ifdef FORCE_MAGIC
	/* shape: trailer magic is one of the two valid ones so that the paths
	 * behind the magic gate are certainly explored (the solver finds them
	 * anyway; this only makes the witness meaningful) */
	if (LEN >= 512) {
		uint32_t m = vn_bool() ? 0x4D54424C : 0x77846676;
		file_bytes[LEN - 4] = m & 0xff;
		file_bytes[LEN - 3] = (m >> 8) & 0xff;
		file_bytes[LEN - 2] = (m >> 16) & 0xff;
		file_bytes[LEN - 1] = (m >> 24) & 0xff;
	}
#endif
}

void h_open_fd(void)
{
	verif_stop_is_violation = 0;	/* stopping on a consistency assert is allowed */
	make_file();
	struct mtbl_reader_options opt = { .verify_checksums = VERIFY, .madvise_random = vn_bool() };
	struct mtbl_reader *r = mtbl_reader_init_fd(7, vn_bool() ? &opt : NULL);
	V_ASSERT(!bad_crc_range, "C19: checksum requested over bytes outside the file");
	V_ASSERT(!bad_madvise, "C19: madvise range outside the file");
	if (r == NULL) {
		V_ASSERT(n_mmap == n_munmap, "C19: NULL result but the mapping is still held");
	} else {
#ifdef FORCE_MAGIC
		V_WITNESS();
#endif
		V_ASSERT(r->data == file_bytes && r->len_data == LEN, "C19: reader maps the file");
		V_ASSERT(LEN >= 512, "C19: a file shorter than the trailer opened as a table");
		mtbl_reader_destroy(&r);
		V_ASSERT(r == NULL, "C19: destroy clears the handle");
		V_ASSERT(n_mmap == 1 && n_munmap == 1, "C19: mapping released exactly once");
	}
	V_ASSERT(!bad_unmap, "C19: munmap with the wrong range");
	free(file_bytes);
#ifndef FORCE_MAGIC
	V_WITNESS();
#endif
}

void h_open_path(void)
{
	verif_stop_is_violation = 0;
	make_file();
	struct mtbl_reader *r = mtbl_reader_init("some/file.mtbl", NULL);
	V_ASSERT(n_open == n_close, "C19: descriptor closed after open");
	if (r != NULL) {
		V_ASSERT(n_open == 1, "C19: a reader without a successful open");
		mtbl_reader_destroy(&r);
	}
	V_ASSERT(n_mmap == n_munmap, "C19: mapping balance");
	V_ASSERT(!bad_unmap && !bad_crc_range, "C19: ranges");
	free(file_bytes);
	V_WITNESS();
}

V_MAIN(V_E(h_open_fd), V_E(h_open_path))
