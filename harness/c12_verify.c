/* C12 (iii): src/mtbl_verify.c's verify_file()/verify_data_blocks() (#included, main renamed)
 * together with the real reader (#included) on a reference-encoded file; CRC is the
 * uninterpreted function with a call log of c_reader.c. */
#include <stdio.h>
#include "ref_encode.h"
#include "fileenv_reader.h"
#include "mtbl/reader.c"

static int v_isatty(int fd) { (void)fd; return (int)(vn_u64() & 1); }
#define isatty v_isatty
#define printf(...) ((void)0)
#define fprintf(...) ((void)0)
#define fputs(a, b) ((void)0)
#define fflush(a) ((void)0)
#define main mtbl_verify_main
#include "src/mtbl_verify.c"
#undef main
#include "fileenv_reader_undef.h"

#ifndef VERIFY
#define VERIFY 1
#endif
static int crc_seen[NB + 1], crc_other;
uint32_t mtbl_crc32c(const uint8_t *buf, size_t len)
{
	for (size_t s = 0; s <= NB; s++)
		if (buf == R_file + R_payload_off[s] && len == R_payload_len[s]) {
			crc_seen[s]++;
#ifdef DAMAGE_BLOCK
			if (s == DAMAGE_BLOCK) {
				uint32_t d = vn_u32();
				V_ASSUME(d != 0);
				return R_crc[s] ^ d;
			}
#endif
			return R_crc[s];
		}
	crc_other++;
	return vn_u32();
}
mtbl_res mtbl_decompress(mtbl_compression_type t, const uint8_t *in, const size_t n, uint8_t **out, size_t *on)
{
	(void)t; (void)in; (void)n; (void)out; (void)on;
	return mtbl_res_failure;
}

void h_verify(void)
{
	verif_stop_is_violation = 0;	/* stopping on the index checksum is "not OK", which is allowed */
	ref_build_file();
	fe_file = R_file;
	fe_len = R_file_len;
	bool ok = verify_file("table.mtbl");
#ifdef DAMAGE_BLOCK
	V_ASSERT(!ok, "C12: mtbl_verify reported OK although a block's checksum does not match");
#else
	V_ASSERT(ok, "C12: mtbl_verify rejected an intact file");
	for (size_t s = 0; s <= NB; s++)
		V_ASSERT(crc_seen[s] >= 1, "C12: mtbl_verify said OK without comparing every block's checksum (data blocks and index)");
	V_ASSERT(crc_other == 0, "C12: checksum computed over something that is not a block's stored bytes");
#endif
	V_WITNESS();
}
V_MAIN(V_E(h_verify))
