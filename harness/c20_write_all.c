/* C20: _write_all() in mtbl/writer.c under every outcome sequence of write(2).
 * The real writer.c is #included with write renamed to the model below. */
#include <errno.h>
#include <stdio.h>
#include <stdlib.h>
#include <string.h>
#include <unistd.h>
#include "verif.h"

#ifndef NBUF
#define NBUF 8		/* buffer bytes */
#endif
#ifndef BCALLS
#define BCALLS 6	/* write(2) calls modelled per _write_all */
#endif

static ssize_t verif_write(int fd, const void *buf, size_t n);
#define write verif_write
#define fprintf(...) ((void)0)
#include "mtbl/writer.c"
#undef write

static uint8_t ghost[NBUF + 1];
static size_t ghost_n;
static int calls, hard_seen, zero_seen, bad_args;
static int block_mode;	/* h_write_block: several buffers in a row, only the byte count is tracked */
static const uint8_t *exp_buf;
static size_t exp_size;
static int exp_fd;

/* write(2) contract: returns -1 with errno set, or a count in [0, n]
 * (0 only... POSIX allows 0 for n > 0 on some files; the property treats a
 * 0 return like a hard error: the process must stop) */
static ssize_t verif_write(int fd, const void *buf, size_t n)
{
	/* beyond BCALLS calls is outside the bound */
	V_ASSUME(calls < BCALLS);
	calls++;
	/* each call must present exactly the not-yet-written suffix */
	if (block_mode) {
		/* interrupted or short, never failing: the question is what the caller's
		 * accounting makes of the fragmentation */
		if (vn_range(0, 1) == 0) {
			errno = EINTR;
			return -1;
		}
		size_t kb = (size_t)vn_range(1, NBUF + 16);
		V_ASSUME(kb <= n);
		ghost_n += kb;
		return (ssize_t)kb;
	}
	if (fd != exp_fd || (const uint8_t *)buf != exp_buf + ghost_n || n != exp_size - ghost_n)
		bad_args = 1;
	unsigned kind = (unsigned)vn_range(0, 3);
	if (kind == 0) {
		errno = EINTR;
		return -1;
	}
	if (kind == 1) {
		int e = (int)vn_range(1, 133);
		V_ASSUME(e != EINTR);
		errno = e;
		hard_seen = 1;
		return -1;
	}
	if (kind == 2) {
		zero_seen = 1;
		return 0;
	}
	size_t k = (size_t)vn_range(1, NBUF);
	V_ASSUME(k <= n);
#ifndef NO_GHOST
	for (size_t i = 0; i < NBUF; i++)
		if (i < k && ghost_n + i < sizeof(ghost))
			ghost[ghost_n + i] = ((const uint8_t *)buf)[i];
#endif
	/* with NO_GHOST the appended bytes are identified by address: the call
	 * presented exp_buf+ghost_n (checked above) and the buffer is checked
	 * unmodified at the end, so bytes [ghost_n, ghost_n+k) of it were appended */
	ghost_n += k;
	return (ssize_t)k;
}

void h_write_all(void)
{
	uint8_t buf[NBUF], orig[NBUF];
	vn_bytes(buf, NBUF);
	for (size_t i = 0; i < NBUF; i++)
		orig[i] = buf[i];
	size_t size = (size_t)vn_range(1, NBUF);
	verif_stop_is_violation = 0;	/* stopping loudly is the demanded reaction to a hard error */
	exp_buf = buf;
	exp_size = size;
	exp_fd = (int)vn_range(0, 1000);
	errno = (int)vn_range(0, 133);	/* stale errno from before the call */

	_write_all(exp_fd, buf, size);

	/* returned normally */
	V_ASSERT(!hard_seen, "C20: a hard write error is never reported as success");
	V_ASSERT(!zero_seen, "C20: a zero-length write is never reported as success");
	V_ASSERT(!bad_args, "C20: every write(2) call presents exactly the remaining suffix");
	V_ASSERT(ghost_n == size, "C20: exactly size bytes reached the file");
	for (size_t i = 0; i < NBUF; i++) {
		V_ASSERT(buf[i] == orig[i], "C20: the caller's buffer is not modified");
#ifndef NO_GHOST
		if (i < size)
			V_ASSERT(ghost[i] == orig[i], "C20: bytes reach the file in order, unchanged");
#endif
	}
	V_WITNESS();
}

/* _mtbl_writer_write_block(): the byte count it reports feeds pending_offset, the
 * index entries and the trailer, i.e. file CONTENT; it must be the number of bytes
 * appended whatever write(2) returned on the way (length varint, crc, data). */
void h_write_block(void)
{
	uint8_t data[NBUF];
	struct data_block b;
	vn_bytes(data, NBUF);
	b.comp_type = MTBL_COMPRESSION_NONE;
	b.comp_level = 0;
	b.data = data;
	b.len_data = (size_t)vn_range(1, NBUF);
	b.last_key = NULL;
	b.len_last_key = 0;
	b.crc = (uint32_t)vn_range(0, 0xffffffffu);
	block_mode = 1;
	errno = (int)vn_range(0, 133);

	size_t r = _mtbl_writer_write_block((int)vn_range(0, 1000), &b);

	V_ASSERT(ghost_n == 1 + sizeof(uint32_t) + b.len_data, "C20: length varint, crc and data all reach the file");
	V_ASSERT(r == ghost_n, "C20: the byte count used for offsets equals the bytes appended, however write(2) fragmented them");
	V_WITNESS();
}

V_MAIN(V_E(h_write_all), V_E(h_write_block))
