#!/usr/bin/env python3
"""Write the prompt given to a seeding sub-agent for property <ID> working in scratch worktree <wt>.
The prompt contains only the property text and the one-line summaries of changes already kept for it
(so the agent picks a different site); nothing else from /verif.   usage: seed_prompt.py <ID> <wt>"""
import json
import os
import sys

pid, wt = sys.argv[1:3]
prop = None
for line in open("/verif/properties.jsonl"):
    d = json.loads(line)
    if d["id"] == pid:
        prop = d
existing = []
for s in sorted(os.listdir("/verif/seeded")):
    try:
        m = json.load(open("/verif/seeded/%s/meta.json" % s))
    except Exception:
        continue
    if m.get("property") == pid:
        existing.append((m.get("summary") or "")[:160])

T = """You are helping evaluate a verification framework for the C library farsightsec/mtbl (immutable sorted string tables). You have your own scratch git worktree of the library at @WT@ (already configured and built with ./configure && make; rebuild with 'make -j8'; run the test suite with 'make check'). Work ONLY inside @WT@. Do not look at or touch /repo or /verif. There is no network.

Here is a semantic property the library is supposed to satisfy:

@PROP@

Your task: produce ONE realistic change to the library source (under mtbl/, libmy/ or src/) that BREAKS this property while (a) still compiling without new warnings and (b) still passing the whole existing test suite ('make check' must report 15 passes, 0 failures). The change should look like something a maintainer could plausibly commit by mistake (a refactor, an 'optimisation', an off-by-one, a boundary condition, a copy-paste slip, two cooperating sites that each look fine alone). It must need something SPECIFIC to manifest - an unusual input, a particular size boundary, a multi-step sequence of operations, a fault at a particular point - not something that ordinary use would expose immediately.

Do NOT repeat any of these changes that were already tried (pick a different site or mechanism):
@EXISTING@

Deliverables, all inside @WT@/_seed/ :
 1. patch.diff  - output of 'git --no-pager diff -- mtbl libmy src' with your change applied (must apply with 'git apply' to a clean tree).
 2. demo.c (or demo.sh) - a small self-contained demonstration program using the library's public API (or including a library .c file directly if it must reach a static function) that exits 0 on the unchanged library and exits non-zero on the changed library. The first line of demo.c must be a comment giving the exact build+run command relative to the worktree root, e.g.  /* BUILD: gcc -I. -Imtbl _seed/demo.c -o _seed/demo mtbl/.libs/libmtbl.so -Wl,-rpath,$PWD/mtbl/.libs && _seed/demo */
 3. meta.json - {"property": "@PID@", "summary": "<what was changed, where>", "needs": "<what is needed for it to manifest>", "ran": ["<commands you ran and what they showed>"]}

Verify yourself: with the change, make && make check passes (15/15) and the demo fails; after 'git checkout -- mtbl libmy src && make', the demo passes. Leave the worktree CLEAN (change reverted, rebuilt) when you finish, with only the _seed/ directory added. Budget: finish within about 10 minutes; keep it simple and make sure it is confirmed. Reply with a 3-line summary."""

print(T.replace("@WT@", wt).replace("@PID@", pid).replace("@PROP@", json.dumps(prop, indent=1))
      .replace("@EXISTING@", "\n".join(" - " + e for e in existing)))
