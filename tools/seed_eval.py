#!/usr/bin/env python3
"""Confirm a seeded mutant (patch applies, builds, `make check` passes, demo fails with / passes without)
in its scratch worktree, then run the property's check(s) against it in /repo and record the outcome
under /verif/seeded/<id>/.   usage: seed_eval.py <worktree> <mutantdir> <seed-id> <check> [<check>...]"""
import json
import os
import re
import shutil
import subprocess
import sys
import time

wt, mdir, sid = sys.argv[1:4]
checks = sys.argv[4:]
tier = os.environ.get("SEED_TIER", "quick")
out = "/verif/seeded/%s" % sid
os.makedirs(out, exist_ok=True)
log = []


def sh(cmd, cwd=None, timeout=3600):
    r = subprocess.run(cmd, shell=True, cwd=cwd, capture_output=True, text=True, timeout=timeout)
    log.append("$ %s  (rc=%d)\n%s" % (cmd, r.returncode, (r.stdout + r.stderr)[-1500:]))
    return r.returncode, r.stdout + r.stderr


patch = os.path.join(mdir, "patch.diff")
meta_in = json.load(open(os.path.join(mdir, "meta.json")))
demo = sorted(f for f in os.listdir(mdir) if f.startswith("demo") and (f.endswith(".c") or f.endswith(".sh")))
demo_src = os.path.join(mdir, demo[0])
head = open(demo_src, errors="replace").read(3000)
res = {"seed": sid, "property": meta_in.get("property"), "summary": meta_in.get("summary"), "needs": meta_in.get("needs")}

# ---- confirmation in the scratch worktree (brought to /repo's current HEAD first) ----
sh("git checkout -- mtbl libmy src; git checkout -q --detach $(git -C /repo rev-parse HEAD) && make -j8 >/dev/null 2>&1", cwd=wt)
rc, _ = sh("git apply --check %s" % patch, cwd=wt)
res["patch_applies"] = rc == 0


def build_demo():
    if demo_src.endswith(".sh"):
        return "sh %s" % demo_src
    joined = re.sub(r"\\\s*\n[ \t]*(?:\*|//)?[ \t]*", " ", head)      # join backslash-continued comment lines
    m = re.search(r"(gcc[^\n]*)", joined)
    cmd = m.group(1).strip().rstrip("*/ ").strip() if m else "gcc -I. -Imtbl %s -o demo mtbl/.libs/libmtbl.so -Wl,-rpath,$PWD/mtbl/.libs" % demo_src
    cmd = re.sub(r"\s&&.*$", "", cmd)
    cmd = re.sub(r"(?<![\w/.])_seed/%s/" % re.escape(os.path.basename(mdir)), mdir + "/", cmd)
    cmd = re.sub(r"(?<![\w/])demo\.c", demo_src, cmd)
    rc, o = sh(cmd, cwd=wt)
    exe = re.search(r"-o\s+(\S+)", cmd)
    return "./" + exe.group(1) if exe and not exe.group(1).startswith("/") else (exe.group(1) if exe else "./demo")


def run_demo():
    runner = build_demo()
    rc, o = sh("timeout 300 %s" % runner, cwd=wt)
    return rc


base_rc = run_demo()
sh("git apply %s && make -j8 >/dev/null 2>&1" % patch, cwd=wt)
rc, o = sh("make check 2>&1 | grep -E '^# (PASS|FAIL|ERROR)'", cwd=wt)
res["make_check_with_patch"] = o.strip().replace("\n", " ")
mut_rc = run_demo()
sh("git checkout -- mtbl libmy src && make -j8 >/dev/null 2>&1", cwd=wt)
res["demo_rc_without_patch"] = base_rc
res["demo_rc_with_patch"] = mut_rc
res["confirmed"] = bool(res["patch_applies"] and base_rc == 0 and mut_rc != 0 and "# FAIL:  0" in res["make_check_with_patch"] and "# PASS:  15" in res["make_check_with_patch"])

# ---- detection by the checks: the patch is applied in the scratch worktree (same commit as /repo,
# with its config.h) and the checks are pointed at it with VERIF_REPO, output to a scratch dir, so
# that /repo and /verif/evidence stay untouched while other work goes on ----
res["checks"] = {}
if res["confirmed"]:
    sh("git apply %s" % patch, cwd=wt)
    scratch = "/tmp/seedout_%s" % sid
    try:
        for c in checks:
            t0 = time.time()
            rc, o = sh("cd /verif && VERIF_REPO=%s VERIF_OUT=%s VERIF_JOBS=%s ./vcheck %s --tier %s 2>&1 | grep -v '^  ' | tail -12"
                       % (wt, scratch, os.environ.get("SEED_JOBS", "8"), c, tier))
            vio = [l for l in o.splitlines() if l.startswith("VIOLATION")]
            summ = [l for l in o.splitlines() if l.startswith(c + " tier=")]
            res["checks"][c] = {"tier": tier, "detected": bool(vio), "violations": vio[:3], "summary": summ[-1:], "wall_s": round(time.time() - t0)}
    finally:
        sh("git checkout -- mtbl libmy src", cwd=wt)
        shutil.rmtree(scratch, ignore_errors=True)
shutil.copy(patch, os.path.join(out, "patch.diff"))
shutil.copy(demo_src, os.path.join(out, os.path.basename(demo_src)))
res["agent_meta"] = meta_in
json.dump(res, open(os.path.join(out, "meta.json"), "w"), indent=1)
open(os.path.join(out, "eval.log"), "w").write("\n\n".join(log))
print(json.dumps({k: res[k] for k in ("seed", "confirmed", "demo_rc_without_patch", "demo_rc_with_patch", "make_check_with_patch")}), json.dumps(res["checks"])[:600])
