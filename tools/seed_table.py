#!/usr/bin/env python3
"""Prints the markdown table of seeded changes (seeded/*/meta.json) for DESIGN.md I.7."""
import glob
import json
import os

rows = []
for f in sorted(glob.glob(os.path.join(os.path.dirname(os.path.dirname(os.path.abspath(__file__))), "seeded", "*", "meta.json"))):
    m = json.load(open(f))
    if "seed" not in m:
        continue
    det = []
    for c, v in sorted(m.get("checks", {}).items()):
        if isinstance(v, dict):
            s = (v.get("summary") or [""])[0]
            if v.get("detected"):
                det.append("%s: **caught**" % c)
            elif "inconclusive" in s and ", 0 inconclusive" not in s:
                det.append("%s: exit 2 (inconclusive), not a VIOLATION" % c)
            else:
                det.append("%s: missed" % c)
    rows.append("| %s | %s | %s | %s |" % (m["seed"], m.get("property"), (m.get("summary") or "").replace("|", "/")[:170], "; ".join(det) or "—"))
print("| seeded change | property | what it does | quick check on the changed tree |")
print("|---|---|---|---|")
print("\n".join(rows))
