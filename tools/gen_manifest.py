#!/usr/bin/env python3
"""Regenerates MANIFEST.json from the table below (single source of truth)."""
import json
import os

HERE = os.path.dirname(os.path.dirname(os.path.abspath(__file__)))
TECH = "bounded symbolic execution of the real C translation units (CBMC 6.11, SAT/SMT back end); counterexamples replayed natively under ASan/UBSan"

CHECKS = {
    "C16": dict(
        text="Solver verdict (CBMC/SAT) over all 2^64 / 2^32 values and all byte strings of each stated length for the real varint.c and fixed.c; loops are bounded by 10 iterations and the unwinding assertions prove that bound sufficient, so within this unit the bounded check is complete.",
        note="Trusts CBMC's C front end/bit-blasting and the SAT solver; little-endian x86-64 target as configured; harness reference definitions of base-128 and little-endian.",
        ref="DESIGN.md 4 C16"),
    "C20": dict(
        text="Solver verdict over every outcome sequence of write(2) (EINTR, hard error, 0, any partial count) for the real _write_all, buffers up to 16 bytes and up to 12 write calls, plus the real _mtbl_writer_write_block under every EINTR/short-write sequence (the byte count it reports for offsets, index entries and trailer equals the bytes appended), plus a call-graph obligation (write is reached only through _write_all) regenerated from the goto program on every run.",
        note="write(2) is a contract stub; more than 12 calls per buffer and longer buffers are outside the bound; composition to whole files rests on the call-graph obligation and on the write_block query (no information flows from write(2) outcomes into file content).",
        ref="DESIGN.md 4 C20"),
    "C19": dict(
        text="Every byte of the file is a solver variable: for each listed file length CBMC's pointer/bounds checks prove that mtbl_reader_init_fd/mtbl_reader_init touch no byte outside the file, return NULL/a reader/stop, and release the mapping; all 2^(8*len) files of that length are covered at once.",
        note="fstat/mmap/munmap/open/close/getenv/posix_madvise/CRC are stubs; file lengths are sampled (every length 512..559 in the thorough tier, up to 1100); mapping modelled as exactly file-sized.",
        ref="DESIGN.md 4 C19"),
    "C15": dict(
        text="Solver verdict for the real compression.c over all input sizes up to 256 MiB (sizing/overflow arithmetic), all int levels, all algorithm values, payload compared for sizes 0..4, against contract models of the four libraries (a compressor may produce any size up to its documented bound); counterexamples are replayed against the real libraries.",
        note="The libraries are modelled by their documented contracts, not verified; sizes between 256 MiB and INT_MAX are outside the round-trip claim (solver observations there are listed in DESIGN.md).",
        ref="DESIGN.md 4 C15"),
    "C17": dict(
        text="Both implementations are executed symbolically against a bit-at-a-time CRC-32C: all contents for lengths 0..2 (slicing) / 0..4 (SSE4.2 with the CRC32 instruction replaced by a C model validated against the host CPU), one arbitrary byte at each stated position of buffers up to 24/40 bytes at alignments 0..7, pairs of arbitrary bytes for short buffers, and the run-time dispatch for either CPUID answer.",
        note="All-content equivalence beyond 2/4 bytes does not finish on any back end and is outside the bound; lengths > 40 outside; the instruction model is part of the trusted base (checked against the CPU on each run).",
        ref="DESIGN.md 4 C17"),
}

CHECKS.update({
    "C01": dict(
        text="Round trip decided compositionally by solver queries over the real code: block_builder.c->block.c on fully symbolic entries; the real writer's file (every configuration axis: restart interval, block size, foreign prefix, compression id and level through a ghost codec) decoded by an independent decoder to exactly the added list; the real reader returning exactly what an independent encoder laid out (v1/v2, all legal encodings). Value bytes and all key bytes not deciding order are solver variables. Entry lengths are enumerated shapes (0..3 bytes, plus 127..131/200/255/256/383-byte keys, values and shared prefixes at block level, 127..129 on the writer side, 130/131-byte keys in reader-side files); in addition block.c's decode_entry() is decided for every triple of 32-bit lengths against a reference LEB128 header.",
        note="Writer and reader halves meet at the format description (independent decoder/encoder in the harness), not in one query; real codecs are C15; thread pool is C13; mtbl_dump's option filter is checked separately when built. Bounds: <= 6 entries, keys <= 3 bytes apart from the listed long shapes; block_builder_add with solver-chosen lengths did not finish (memcpy of symbolic size).",
        ref="DESIGN.md 4 C01"),
    "C02": dict(
        text="Solver verdict for reader_get / get_prefix / get_range: for tables with symbolic keys, values and separators and for concrete tables with awkward keys (empty key, proper prefixes, 0xff, restart runs), every query string of 0..2 bytes yields exactly the oracle's list (then sticky failure); queries beyond the last index key checked for concrete queries; one table with 130/131-byte keys and a 128-byte value under concrete queries.",
        note="Tables <= 3 blocks / 5 entries, keys and queries <= 2 bytes; reader struct built white-box in the state mtbl_reader_init_fd leaves (C19/C11 cover init); the constructor's give-up path is asserted unreachable for in-range queries and cut.",
        ref="DESIGN.md 4 C02"),
    "C03": dict(
        text="Histories of next/seek on all four reader iterator kinds, checked against a list oracle after every call: from every position a concrete pre-history reaches on six tables, the next seek's target bytes are solver variables (all (position,target) pairs), plus symbolic-key tables with one symbolic seek; includes other-iterator interference and validity of handed-out buffers.",
        note="<= 3 blocks x 3 entries, keys <= 2 bytes, <= 9 operations, at most two symbolic seeks per history (formula doubles per symbolic seek); found F1 (fixed).",
        ref="DESIGN.md 4 C03"),
    "C08": dict(
        text="Add histories in arbitrary order with repeats (refusals before/after block cuts) run through the real writer and judged by the independent decoder, plus the ordering gate for a completely arbitrary key (0..3 symbolic bytes) as one step from four pre-states, plus the open(2) flags of mtbl_writer_init.",
        note="Order-deciding key bytes are concrete in the histories (otherwise the file layout becomes symbolic); arbitrary-key steps exclude the case where the same step cuts a block.",
        ref="DESIGN.md 4 C08"),
    "C09": dict(
        text="Every file the real writer produces in the shape table is decoded by an independent decoder inside the query: framing, CRC-of-stored-bytes (uninterpreted CRC with call log), contiguity from the initial offset, index keys in [last, next first), restart cadence, longest-common-prefix elision, block-size rule in both directions, trailer layout. Verdict is the solver's over all symbolic value/key/CRC bytes of a shape.",
        note="Translation-validation flavour, bounded: <= 6 entries, 0..3 block cuts; decoder is part of the trusted base; order-deciding key bytes concrete.",
        ref="DESIGN.md 4 C09"),
    "C10": dict(
        text="The nine trailer fields written by the real writer equal the harness's own count of accepted entries, decoded blocks and byte ranges (incl. refused adds, empty table, foreign prefix), metadata_write/read are exact inverses on nine symbolic 64-bit fields, and the accessors return their own field on reference-encoded files.",
        note="Pooled writers: C13; mtbl_info formatting not encoded.",
        ref="DESIGN.md 4 C10"),
    "C11": dict(
        text="Files laid out by an independent reference encoder (v1/v2, every restart-flag subset, maximal and non-maximal sharing, separators anywhere in the legal interval, index with/without restarts, foreign prefix incl. two-byte varint offsets, compression ids via ghost codec, with/without checksum verification) are read by the real reader through the real mtbl_reader_init_fd: full iteration, lookups and a seek return exactly the encoded entries; all content bytes symbolic. Restart-array location and width (32/64-bit) are decided for every block size up to 2^36 and every restart count at block_init/get_restart_point level, together with the builder's size estimate.",
        note="<= 3 blocks / 5 entries; 64-bit restart arrays (blocks > 4 GiB) and >=128-byte keys are outside; encoder is part of the trusted base.",
        ref="DESIGN.md 4 C11"),
})

CHECKS.update({
    "C04": dict(
        text="The real merger.c/heap.c are run over harness array sources (which invalidate previously returned buffers on every call) for families of 0..3 sources covering interleaved, overlapping, disjoint and empty sources, the empty key, prefixes and 0xff; every value byte is a solver variable, so 'each value folded exactly once' is decided for all values; merge function, none, dupsort and a failing merge callback; full drain. libmy/heap.c is additionally decided alone for every content of <= 4 items (symbolic keys; push or add+heapify; minimum replaced up to three times; drained) and through 5- and 7-source families. Found F2 (fixed).",
        note="Keys are concrete (a symbolic key would make the heap order symbolic); input sources are contract models of the reader (C02/C03 check the reader against that contract); mtbl_merge tool not encoded.",
        ref="DESIGN.md 4 C04"),
    "C05": dict(
        text="Merger iterators of all four kinds over 2..3 sources: seek to every interesting concrete target around the key set from every iterator position, pairs of seeks (forward/backward, same key twice, seek to the key just returned), get/get_prefix/get_range through the merger source; compared with a single-table oracle; values symbolic. Found F8 (fixed).",
        note="Targets are enumerated (shape), not solver variables; the solver decides the value flow and buffer validity. <= 5 entries, <= 2 seeks per history.",
        ref="DESIGN.md 4 C05"),
})

CHECKS.update({
    "C06": dict(
        text="All of sorter.c is executed symbolically against contract models of the writer, reader, merger, iterator and thread-pool APIs and of qsort (any tie order) / mkstemp / unlink / close: for inputs of <= 4 adds in any order with duplicates and every chunk capacity, the spill happens exactly when the buffered bytes reach the limit, every chunk handed to the writer is strictly increasing with values folded once, the final iterator yields each distinct key once in order with the byte-sum of exactly the added values (values symbolic), temp files are created under the configured directory, and add/write after iteration are refused; with a pool for several delivery schedules.",
        note="Cross-chunk merging is C04 (merger is a contract model here); keys concrete, <= 1 byte; pool delivery points are enumerated schedules (at once / next pool call / only at join), not all interleavings (C13/C14).",
        ref="DESIGN.md 4 C06"),
    "C12": dict(
        text="Code obligations decided by the solver with CRC as an uninterpreted function with a call log: the reader with verify_checksums compares the CRC of exactly each block's stored bytes before returning any entry from it (iteration, get, seek, last block, index at open, v1/v2), mtbl_verify's verify_file says OK only after comparing every data block and the index, and a block whose recomputed CRC differs from the stored one is never accepted (the process stops / FAILED). CRC-32C's detection of 1..3 bit flips and bursts <= 32 bits is decided on the real implementations for payloads <= 4 bytes.",
        note="Detection for longer blocks rests on the polynomial's published properties plus C17; writer side (stores crc of stored bytes) is asserted in the C09 queries.",
        ref="DESIGN.md 4 C12"),
    "C18": dict(
        text="Life-cycle queries of the sorter, reader, merger, writer, fileset and my_fileset harnesses, each ending with every object destroyed, run with CBMC's memory-leak check and ghost tables for descriptors, mappings and temp files: sorter destroyed before/after iteration, after refused adds, pooled with undelivered chunk jobs, with a failing merge callback; reader iterators abandoned; files that do not open; merger iterators of all kinds; writers with refused adds; filesets with a dup, open iterators, reloads and destroy in either order; the real my_fileset.c over setfile generations incl. repeated names (every loaded object destroyed exactly once). Found F6, F7, F10, F11, F12 (fixed).",
        note="'All finite histories' is approximated by destroy-at-every-stage shapes; real threads are not covered; fileset.c and my_fileset.c meet at a contract, not in one query.",
        ref="DESIGN.md 4 C18"),
})

CHECKS.update({
    "C07": dict(
        text="All of fileset.c is executed symbolically against contract models of my_fileset (setfile generations: any subset of three names per change), the monotonic clock (any non-decreasing readings, equal readings included), readers, mergers and iterators, over histories of <= 14 operations on two handles sharing one fileset (open/close iterators, reload, reload_now, setfile change, time passes, dup with other filters/interval, destroy in either order): a new iterator reads exactly the files of the most recent reload restricted by the handle's filter and never from an unloaded reader; no load/unload while an iterator is open; due reloads happen at the next source operation. Found F3 (fixed). The real libmy/my_fileset.c is executed in separate queries over enumerated setfile generations (<= 3 generations of <= 4 lines over three names incl. repeated names, missing and reappearing files; inode/mtime change symbolic): the loaded set is exactly the named existing files, kept entries are not reloaded, every loaded object is destroyed exactly once (F12, fixed).",
        note="fileset.c and my_fileset.c meet at my_fileset's contract, they are not executed in one query; histories and setfile line lists are enumerated shapes, clock readings, fileset.c's setfile generations and the setfile's inode/mtime changes are solver variables.",
        ref="DESIGN.md 4 C07"),
})

CHECKS.update({
    "C13": dict(
        text="LAYER B (threadpool.c itself): every protocol step of the real code -- dispatch, dispatch on a saturated pool, a worker's job, worker shutdown, result dequeue, end of stream, the handler loop, handler init/destroy, pool destroy -- is run once from every pre-state with a result queue and an idle list of 0..2 threads that satisfies the queue/idle-list invariant (max, count and outstanding-count slack symbolic) and must re-establish the invariant and meet its contract: job handed to an idle or newly created thread, never created at count == max, queued at the tail iff ordered, results out once each in queue order, thread recycled, waits exactly when not enabled, destroy/join return. LAYER A (writer.c and sorter.c): with the pool API replaced by that contract (delivery at once / at the next pool call / only at join), the pooled writer's file is judged well-formed with the same entries, offsets and counters by the independent decoder, the sorter yields the same folded output, every dispatched job is delivered exactly once and close/destroy return only after the handler was joined.",
        note="Inductive steps cover call histories of any length only as far as each step is atomic: interleavings INSIDE a step (two threads inside the pool at once, signal before wait, spurious wake-ups, the unlocked mailbox reads in thread_worker) -- the property's quantifier over real thread schedules -- are NOT decided: CBMC 6.11 refuses threaded encodings of the unit (unsound pointer handling under concurrency), a sequentialised scheduler harness did not finish (attic/), no other concurrency-capable engine is installed (DESIGN.md I.5, C13). Lists longer than 2 are outside.",
        ref="DESIGN.md 4 C13"),
})

NOT_APPLICABLE = {
    "C14": "needs an engine that explores/over-approximates all executions of pointer-sharing pthread code and decides happens-before; CBMC 6.11 stops on threadpool.c ('pointer handling for concurrency is unsound'), no other such engine is installed (DESIGN.md 4 C14)",
}

PENDING = "check not built yet in this session (see DESIGN.md for the planned encoding)"


def main():
    props = [json.loads(l)["id"] for l in open(os.path.join(HERE, "properties.jsonl"))]
    checks = []
    for pid in props:
        if pid not in CHECKS:
            continue
        c = CHECKS[pid]
        checks.append({
            "property_id": pid,
            "quick_cmd": "./vcheck %s --tier quick" % pid,
            "thorough_cmd": "./vcheck %s --tier thorough" % pid,
            "evidence_file": "/verif/evidence/%s.json" % pid,
            "replay_cmd_template": "./vcheck %s --replay {path}" % pid,
            "engine": "vcheck",
            "level_claimed": {"category": "model_checking", "text": c["text"], "design_ref": c["ref"]},
            "level_note": c["note"],
            "technique": c.get("technique", TECH),
        })
    na = []
    for pid in props:
        if pid in CHECKS:
            continue
        na.append({"property_id": pid, "reason": NOT_APPLICABLE.get(pid, PENDING)})
    m = {
        "version": 1,
        "setup_cmd": "true",
        "hooks": {
            "guard": "MTBL_VERIF",
            "enable": "no source hooks are needed: harnesses #include or link the real translation units of /repo's working tree; the environment is replaced at link level or by -D/-include on the goto-cc command line",
            "baseline_off_cmd": "make -C /repo check",
            "source_commits": [],
            "add_only": True,
        },
        "engines": [{"name": "vcheck", "path": "/verif/vcheck", "serves_properties": sorted(CHECKS),
                     "kind_free_text": "CBMC 6.11 bounded symbolic execution of the real C units (goto-cc build from /repo's working tree on every run), SAT/z3 back ends, native ASan/UBSan replay of counterexamples"}],
        "checks": checks,
        "not_applicable": na,
        "notes": "exit 0 = all queries held; exit 1 = replay-confirmed violation (VIOLATION line); exit 2 = inconclusive (timeout, solver error, vacuous harness, unreplayable trace). Known findings: known_findings.txt.",
    }
    with open(os.path.join(HERE, "MANIFEST.json"), "w") as f:
        json.dump(m, f, indent=1)
    print("MANIFEST.json: %d checks, %d not claimed" % (len(checks), len(na)))


if __name__ == "__main__":
    main()
