#!/usr/bin/env python3
"""
vdriver -- runs solver queries (CBMC over the real mtbl translation units),
replays counterexamples natively, writes evidence.  stdlib only.

A *query* = (harness source, entry function, shape defines, bounds).  The
goto program is regenerated from /repo's working tree on every run.
Verdicts: holds / violated (replayed) / inconclusive.  Exit codes of a check:
0 = everything held (known findings printed), 1 = replay-confirmed violation
not listed in known_findings.txt, 2 = inconclusive / broken harness.
"""
import concurrent.futures as cf
import hashlib
import json
import os
import re
import resource
import shutil
import signal
import subprocess
import sys
import tempfile
import threading
import time

VERIF = os.path.dirname(os.path.dirname(os.path.abspath(__file__)))
REPO = os.environ.get("VERIF_REPO", "/repo")
OUTBASE = os.environ.get("VERIF_OUT", VERIF)    # evidence/ and replays/ go here (seed evaluations use a scratch dir)
WORKROOT = os.path.join(OUTBASE, ".work")
HARNESS_DIR = os.path.join(VERIF, "harness")
STUBS_DIR = os.path.join(VERIF, "stubs")
SHIM_DIR = os.path.join(VERIF, "shim")
NCPU = int(os.environ.get("VERIF_JOBS", str(os.cpu_count() or 4)))


MTBL_UNITS = ["mtbl/block.c", "mtbl/block_builder.c", "mtbl/compression.c", "mtbl/crc32c_wrap.c",
              "mtbl/fileset.c", "mtbl/fixed.c", "mtbl/iter.c", "mtbl/merger.c", "mtbl/metadata.c",
              "mtbl/reader.c", "mtbl/sorter.c", "mtbl/source.c", "mtbl/threadpool.c", "mtbl/varint.c",
              "mtbl/writer.c", "libmy/crc32c.c", "libmy/crc32c-slicing.c", "libmy/crc32c-sse42.c",
              "libmy/heap.c", "libmy/my_fileset.c"]
MTBL_LIBS = ["-lz", "-llz4", "-lzstd", "-lsnappy", "-lpthread"]


def all_units_except(*excl):
    """every real mtbl unit except the ones the harness #includes itself (native link closure)"""
    return [u for u in MTBL_UNITS if u not in excl]


def config_h():
    p = os.path.join(REPO, "config.h")
    if os.path.exists(p):
        return p
    return os.path.join(SHIM_DIR, "config_fallback.h")


class Query:
    def __init__(self, name, harness, entry, defines=None, units=None,
                 unwind=None, unwindset=None, flags=None, backend="minisat",
                 timeout=600, mem_gb=8, stop_ok=False, sample=None,
                 witness=True, object_bits=None, native_libs=None,
                 native_units=None, extra_cc=None, nontrivial=True,
                 leak_check=False, no_replay=False, depth=None):
        self.name = name
        self.harness = harness            # path relative to /verif/harness
        self.entry = entry
        self.defines = dict(defines or {})
        self.units = list(units or [])    # paths relative to /repo, or absolute
        self.unwind = unwind
        self.unwindset = dict(unwindset or {})
        self.flags = list(flags or [])
        self.backend = backend
        self.timeout = timeout
        self.mem_gb = mem_gb
        self.sample = sample if sample is not None else dict(self.defines)
        self.witness = witness
        self.object_bits = object_bits
        self.native_libs = list(native_libs or [])
        self.native_units = native_units  # None => same as units
        self.extra_cc = list(extra_cc or [])
        self.nontrivial = nontrivial
        self.leak_check = leak_check
        self.no_replay = no_replay
        self.depth = depth

    def compile_key(self, witness):
        return json.dumps([self.harness, sorted(self.defines.items()), self.units,
                           self.extra_cc, witness], sort_keys=True)


def _limit(mem_gb):
    def f():
        os.setsid()
        b = int(mem_gb * (1 << 30))
        resource.setrlimit(resource.RLIMIT_AS, (b, b))
    return f


def run_cmd(cmd, timeout, mem_gb=None, cwd=None, env=None):
    """returns (rc, out, wall, status) status in ok|timeout|oom"""
    t0 = time.time()
    try:
        p = subprocess.Popen(cmd, stdout=subprocess.PIPE, stderr=subprocess.STDOUT,
                             cwd=cwd, env=env, text=True, errors="replace",
                             preexec_fn=_limit(mem_gb) if mem_gb else os.setsid)
    except OSError as e:
        return 127, str(e), 0.0, "error"
    try:
        out, _ = p.communicate(timeout=timeout)
        status = "ok"
    except subprocess.TimeoutExpired:
        try:
            os.killpg(p.pid, signal.SIGKILL)
        except ProcessLookupError:
            pass
        out, _ = p.communicate()
        status = "timeout"
    wall = time.time() - t0
    if status == "ok" and p.returncode not in (0, 10) and (
            "std::bad_alloc" in out or "Out of memory" in out or "out of memory" in out
            or p.returncode in (-9, -6, 134, 137)):
        status = "oom"
    return p.returncode, out, wall, status


def cc_common(q, witness):
    args = ["-include", config_h(), "-DHAVE_CONFIG_H",
            "-I" + SHIM_DIR, "-I" + REPO, "-I" + os.path.join(REPO, "mtbl"),
            "-I" + HARNESS_DIR, "-I" + STUBS_DIR]
    for k, v in sorted(q.defines.items()):
        args.append("-D%s=%s" % (k, v) if v is not None else "-D%s" % k)
    if witness:
        args.append("-DWITNESS")
    args += q.extra_cc
    return args


def unit_paths(units):
    out = []
    for u in units:
        out.append(u if os.path.isabs(u) else os.path.join(REPO, u))
    return out


_locks = {}
_locks_guard = threading.Lock()


def _lock_for(key):
    with _locks_guard:
        if key not in _locks:
            _locks[key] = threading.Lock()
        return _locks[key]


def compile_goto(q, workdir, witness):
    tag = hashlib.sha1(q.compile_key(witness).encode()).hexdigest()[:16]
    with _lock_for(tag):
        return _compile_goto(q, workdir, witness, tag)


def _compile_goto(q, workdir, witness, tag):
    gb = os.path.join(workdir, "h_%s.gb" % tag)
    if os.path.exists(gb):
        return gb, "", 0.0
    srcs = [os.path.join(HARNESS_DIR, q.harness), os.path.join(HARNESS_DIR, "verif_rt.c")]
    srcs += unit_paths(q.units)
    tmp = gb + ".tmp%d" % os.getpid()
    cmd = ["goto-cc", "-o", tmp] + cc_common(q, witness) + srcs
    # goto-cc drops intermediate objects named after the sources into its cwd: give every
    # compile its own directory or concurrent compiles of the same sources collide
    cdir = tempfile.mkdtemp(prefix="cc_", dir=workdir)
    rc, out, wall, st = run_cmd(cmd, 300, cwd=cdir)
    shutil.rmtree(cdir, ignore_errors=True)
    if rc != 0 or not os.path.exists(tmp):
        return None, "goto-cc failed (rc=%s):\n%s\n%s" % (rc, " ".join(cmd), out), wall
    os.replace(tmp, gb)
    return gb, out, wall


def cbmc_cmd(q, gb, witness, trace):
    cmd = ["cbmc", gb, "--function", q.entry, "--drop-unused-functions",
           "--no-malloc-may-fail"]
    if q.unwind is not None:
        cmd += ["--unwind", str(q.unwind)]
    if q.unwindset:
        cmd += ["--unwindset", ",".join("%s:%s" % kv for kv in sorted(q.unwindset.items()))]
    if q.depth:
        cmd += ["--depth", str(q.depth)]
    if witness:
        cmd += ["--no-standard-checks"]
    else:
        cmd += ["--unwinding-assertions", "--pointer-overflow-check",
                "--undefined-shift-check", "--signed-overflow-check"]
        if q.leak_check:
            cmd += ["--memory-leak-check"]
        if trace:
            cmd += ["--trace"]
    if q.object_bits:
        cmd += ["--object-bits", str(q.object_bits)]
    be = q.backend
    if be == "z3":
        cmd += ["--z3"]
    elif be == "cvc5":
        cmd += ["--cvc5"]
    elif be == "kissat":
        cmd += ["--external-sat-solver", "kissat"]
    elif be == "cadical":
        cmd += ["--sat-solver", "cadical"]
    for f in q.flags:
        if witness and f in ("--memory-leak-check",):
            continue
        cmd.append(f)
    return cmd


RES_RE = re.compile(r"^\[(?P<id>[^\]]+)\] (?:line \d+ )?(?P<desc>.*): (?P<st>SUCCESS|FAILURE|UNKNOWN|ERROR)$", re.M)


def parse_cbmc(out):
    info = {}
    m = re.search(r"size of program expression: (\d+) steps", out)
    if m:
        info["symex_steps"] = int(m.group(1))
    m = re.search(r"Generated (\d+) VCC\(s\), (\d+) remaining after simplification", out)
    if m:
        info["vccs"] = int(m.group(1))
        info["vccs_remaining"] = int(m.group(2))
    m = re.findall(r"(\d+) variables, (\d+) clauses", out)
    if m:
        info["sat_vars"] = int(m[-1][0])
        info["sat_clauses"] = int(m[-1][1])
    m = re.findall(r"Runtime (?:Solver|decision procedure): ([\d.]+)s", out)
    if m:
        info["solver_s"] = sum(float(x) for x in m)
    m = re.search(r"Runtime Symex: ([\d.]+)s", out)
    if m:
        info["symex_s"] = float(m.group(1))
    results = [(r.group("id"), r.group("desc"), r.group("st")) for r in RES_RE.finditer(out)]
    info["n_properties"] = len(results)
    failed = [(i, d) for (i, d, s) in results if s == "FAILURE"]
    bad = [(i, d) for (i, d, s) in results if s in ("UNKNOWN", "ERROR")]
    if "VERIFICATION SUCCESSFUL" in out:
        verdict = "holds"
    elif "VERIFICATION FAILED" in out:
        verdict = "violated"
    else:
        verdict = "inconclusive"
    if bad and not failed:
        verdict = "inconclusive"
    return verdict, failed, info


TRACE_IN_RE = re.compile(r"^State \d+ file \S+ function vn_u64_raw line \d+ thread \d+\n-+\n\s*verif_input_value=(\d+)u?l?\b", re.M)


def trace_for(out, prop_id):
    """slice of the plain-text output holding the trace for property prop_id"""
    idx = out.find("Trace for %s:" % prop_id)
    if idx < 0:
        return None
    nxt = out.find("\nTrace for ", idx + 10)
    return out[idx: nxt if nxt > 0 else len(out)]


def trace_inputs(tr):
    """values returned by vn_u64_raw(), in execution order"""
    return [int(m.group(1)) for m in TRACE_IN_RE.finditer(tr)]


def compile_native(q, workdir):
    tag = hashlib.sha1(("native" + q.compile_key(False)).encode()).hexdigest()[:16]
    with _lock_for("n" + tag):
        return _compile_native(q, workdir, tag)


def _compile_native(q, workdir, tag):
    exe = os.path.join(workdir, "n_%s" % tag)
    if os.path.exists(exe):
        return exe, ""
    srcs = [os.path.join(HARNESS_DIR, q.harness), os.path.join(HARNESS_DIR, "verif_rt.c")]
    units = q.units if q.native_units is None else q.native_units
    srcs += unit_paths(units)
    cmd = ["gcc", "-g", "-O0", "-w", "-fsanitize=address,undefined", "-fno-sanitize-recover=undefined",
           "-DVERIF_NATIVE", "-Wl,--unresolved-symbols=ignore-all", "-no-pie", "-o", exe] + cc_common(q, False) + srcs + q.native_libs
    cdir = tempfile.mkdtemp(prefix="ncc_", dir=workdir)
    rc, out, wall, st = run_cmd(cmd, 300, cwd=cdir)
    shutil.rmtree(cdir, ignore_errors=True)
    if rc != 0:
        return None, "native compile failed:\n%s\n%s" % (" ".join(cmd), out)
    return exe, out


def replay_native(q, workdir, vals, replay_path):
    """returns (status, text): status in reproduced|not_reproduced|assume|error"""
    exe, msg = compile_native(q, workdir)
    if exe is None:
        return "error", msg
    os.makedirs(os.path.dirname(replay_path), exist_ok=True)
    with open(replay_path, "w") as f:
        f.write("\n".join(str(v) for v in vals) + "\n")
    env = dict(os.environ)
    env["VERIF_REPLAY"] = replay_path
    env["VERIF_ENTRY"] = q.entry
    env["ASAN_OPTIONS"] = "detect_leaks=%d:exitcode=1:abort_on_error=0" % (1 if q.leak_check else 0)
    env["UBSAN_OPTIONS"] = "halt_on_error=1:exitcode=1:print_stacktrace=1"
    rc, out, wall, st = run_cmd([exe, q.entry], 120, env=env)
    if st != "ok":
        return "error", "native replay %s\n%s" % (st, out[-2000:])
    if rc == 0:
        return "not_reproduced", out[-3000:]
    if rc == 77:
        return "assume", out[-3000:]
    # a replay counts only when the harness oracle, mtbl's own assert (where that is a
    # violation) or a sanitizer reports -- never merely because the program failed to run
    if ("REPLAY: VIOLATED" in out or "ERROR: AddressSanitizer" in out or "runtime error:" in out
            or "ERROR: LeakSanitizer" in out):
        return "reproduced", out[-4000:]
    return "error", "native run ended rc=%s without an oracle/sanitizer report\n%s" % (rc, out[-3000:])


def run_query(q, workdir, replays_dir, prop_id):
    """Run one query (+ its witness twin). Returns a result dict."""
    res = {"name": q.name, "entry": q.entry, "harness": q.harness, "sample": q.sample,
           "verdict": None, "failed": [], "info": {}, "wall_s": 0.0, "witness": None,
           "notes": [], "backend": q.backend, "replay": None}
    t0 = time.time()
    gb, msg, _ = compile_goto(q, workdir, False)
    if gb is None:
        res["verdict"] = "inconclusive"
        res["notes"].append(msg[-3000:])
        res["wall_s"] = time.time() - t0
        return res
    cmd = cbmc_cmd(q, gb, False, True)
    tmpenv = dict(os.environ, TMPDIR=workdir)      # solver scratch files die with the work directory
    rc, out, wall, st = run_cmd(["/usr/bin/time", "-f", "MAXRSS_KB %M"] + cmd, q.timeout, q.mem_gb, env=tmpenv)
    m_rss = re.search(r"MAXRSS_KB (\d+)", out)
    if m_rss:
        res["rss_mb"] = int(m_rss.group(1)) // 1024
    res["cmd"] = " ".join(cmd)
    if st != "ok":
        res["verdict"] = "inconclusive"
        res["notes"].append("cbmc %s after %.0fs (cap %ss, %s GB)" % (st, wall, q.timeout, q.mem_gb))
        res["wall_s"] = time.time() - t0
        res["out_tail"] = out[-1500:]
        return res
    verdict, failed, info = parse_cbmc(out)
    res["info"] = info
    res["verdict"] = verdict
    if verdict == "inconclusive":
        res["notes"].append("cbmc rc=%s, no verdict" % rc)
        res["out_tail"] = out[-3000:]
    if verdict == "violated":
        res["failed"] = [{"id": i, "desc": d} for i, d in failed]
        known = load_known(prop_id)

        def is_known(pid, desc):
            for k in known:
                if k["query"].search(q.name) and k["assert"].search(pid + " " + desc):
                    return k
            return None
        # harness assertions first, then mtbl-stop, then CBMC's built-in checks
        def prio(f):
            pid = f[0]
            if ".assertion." in pid:
                return 0
            if "unwind" in pid:
                return 2
            return 1
        ordered = sorted(failed, key=prio)
        unmatched = [f for f in ordered if not is_known(*f)]
        matched = [f for f in ordered if is_known(*f)]
        replays = []
        os.makedirs(replays_dir, exist_ok=True)

        def do_replay(pid, desc):
            tr = trace_for(out, pid) or ""
            vals = trace_inputs(tr)
            base = "%s__%s" % (re.sub(r"[^A-Za-z0-9_.-]", "_", q.name), re.sub(r"[^A-Za-z0-9_.-]", "_", pid))
            rp = os.path.join(replays_dir, base + ".in")
            trp = os.path.join(replays_dir, base + ".trace.txt")
            with open(trp, "w") as f:
                f.write("query: %s\ncmd: %s\nproperty: %s %s\n\n" % (q.name, " ".join(cmd), pid, desc))
                f.write(tr[-200000:])
            if q.no_replay:
                stt, txt = "skipped", ""
                with open(rp, "w") as f:
                    f.write("\n".join(str(v) for v in vals) + "\n")
            else:
                stt, txt = replay_native(q, workdir, vals, rp)
            with open(trp, "a") as f:
                f.write("\n\n==== native replay: %s ====\n%s\n" % (stt, txt))
            return {"id": pid, "desc": desc, "replay_status": stt, "replay_file": rp,
                    "trace_file": trp, "replay_tail": txt[-600:]}
        for (pid, desc) in unmatched[:6]:
            r1 = do_replay(pid, desc)
            r1["known"] = None
            replays.append(r1)
            if r1["replay_status"] in ("reproduced", "skipped"):
                break
        if matched:
            pid, desc = matched[0]
            r1 = do_replay(pid, desc)
            r1["known"] = is_known(pid, desc)["text"]
            replays.append(r1)
        res["replays"] = replays
        res["n_unmatched"] = len(unmatched)
    # witness twin
    if q.witness and verdict != "inconclusive":
        gbw, msg, _ = compile_goto(q, workdir, True)
        if gbw is None:
            res["witness"] = "compile_failed"
            res["notes"].append(msg[-2000:])
        else:
            cmdw = cbmc_cmd(q, gbw, True, False)
            rcw, outw, wallw, stw = run_cmd(cmdw, q.timeout, q.mem_gb, env=tmpenv)
            if stw != "ok":
                res["witness"] = stw
            elif re.search(r"WITNESS reached: FAILURE", outw):
                res["witness"] = "reached"
            elif re.search(r"WITNESS reached: SUCCESS", outw) or "VERIFICATION SUCCESSFUL" in outw:
                res["witness"] = "unreachable"
            else:
                res["witness"] = "unknown"
                res["notes"].append(outw[-1500:])
    res["wall_s"] = time.time() - t0
    return res


def load_known(prop_id):
    """known_findings.txt lines:
       finding: property=<id> query=<regex> assert=<regex> :: text
       fixed: property=<id> <commit> <text>       (suppresses nothing)"""
    out = []
    p = os.path.join(VERIF, "known_findings.txt")
    if not os.path.exists(p):
        return out
    for line in open(p):
        line = line.strip()
        if not line.startswith("finding:"):
            continue
        m = re.match(r"finding:\s+property=(\S+)\s+query=(\S+)\s+assert=(\S+)\s*::\s*(.*)", line)
        if m and m.group(1) == prop_id:
            out.append({"query": re.compile(m.group(2)), "assert": re.compile(m.group(3)), "text": m.group(4)})
    return out


def run_check(prop_id, tier, queries, meta, extra_evidence=None, pre_results=None):
    """Run all queries; print verdict lines; write evidence; return exit code."""
    t0 = time.time()
    seed = int(os.environ.get("VERIF_SEED", "0") or 0)
    only = os.environ.get("VERIF_ONLY")     # development aid: run the matching queries only (use with VERIF_OUT)
    if only:
        queries = [q for q in queries if re.search(only, q.name)]
    os.makedirs(WORKROOT, exist_ok=True)
    workdir = tempfile.mkdtemp(prefix="w%d_" % os.getpid(), dir=WORKROOT)
    replays_dir = os.path.join(OUTBASE, "replays", prop_id)
    results = list(pre_results or [])
    # memory-aware parallelism: never schedule more than ~56 GB of per-query caps at once
    maxmem = max([q.mem_gb for q in queries] + [1])
    jobs = max(1, min(meta.get("jobs", NCPU), int(56 // meta.get("expected_gb", max(1.0, maxmem / 3.0)))))
    try:
        # pre-compile distinct goto binaries serially-ish (cheap) to avoid races
        with cf.ThreadPoolExecutor(max_workers=jobs) as ex:
            futs = {ex.submit(run_query, q, workdir, replays_dir, prop_id): q for q in queries}
            for fut in cf.as_completed(futs):
                q = futs[fut]
                try:
                    r = fut.result()
                except Exception as e:  # driver bug: never success
                    r = {"name": q.name, "verdict": "inconclusive", "notes": ["driver exception: %r" % (e,)],
                         "failed": [], "info": {}, "wall_s": 0, "witness": None, "sample": q.sample,
                         "entry": q.entry, "harness": q.harness, "backend": q.backend}
                r["nontrivial"] = q.nontrivial
                results.append(r)
                if os.environ.get("VERIF_VERBOSE"):
                    print("  [%s] %s %.1fs rss=%sMB witness=%s %s" % (r["verdict"], r["name"], r["wall_s"], r.get("rss_mb"), r.get("witness"),
                          "; ".join(n[:200] for n in r.get("notes", []))), flush=True)
    finally:
        shutil.rmtree(workdir, ignore_errors=True)
        try:
            os.rmdir(WORKROOT)
        except OSError:
            pass

    known = load_known(prop_id)
    violations = []      # replay-confirmed, not known
    known_hits = []
    inconclusive = []
    for r in results:
        if r["verdict"] == "holds":
            if r.get("witness") not in (None, "reached", "n/a"):
                inconclusive.append((r, "witness twin %s (harness may be vacuous)" % r.get("witness")))
        elif r["verdict"] == "violated":
            reps = r.get("replays", [])
            um = [rp for rp in reps if not rp.get("known")]
            kn = [rp for rp in reps if rp.get("known")]
            good = [rp for rp in um if rp["replay_status"] in ("reproduced", "skipped")]
            if good:
                violations.append((r, good[0]))
            elif um:
                rp = um[0]
                inconclusive.append((r, "solver counterexample for [%s] %s did not reproduce natively (%s; %d tried): encoding/stub suspect, or UB no sanitizer sees; trace %s"
                                     % (rp["id"], rp["desc"], rp["replay_status"], len(um), rp["trace_file"])))
            for rp in kn:
                known_hits.append((r, rp, {"text": rp["known"]}))
            if not reps:
                inconclusive.append((r, "violated but no trace"))
        else:
            inconclusive.append((r, "; ".join(r.get("notes", []))[:400]))

    seen = set()
    for r, rp, hit in known_hits:
        key = hit["text"]
        if key in seen:
            continue
        seen.add(key)
        print("KNOWN-FINDING: property=%s %s" % (prop_id, hit["text"]))
    for r, rp in violations:
        print("VIOLATION property=%s replay=%s" % (prop_id, rp["replay_file"]))
        print("  query=%s failed=[%s] %s" % (r["name"], rp["id"], rp["desc"]))
        print("  trace=%s" % rp["trace_file"])
    for r, why in inconclusive:
        print("INCONCLUSIVE property=%s query=%s: %s" % (prop_id, r["name"], why))

    n_holds = sum(1 for r in results if r["verdict"] == "holds")
    n_viol = sum(1 for r in results if r["verdict"] == "violated")
    wall = time.time() - t0
    decided = [r for r in results if r["verdict"] in ("holds", "violated")]
    distinct_nontrivial = len({json.dumps([r["harness"], r["entry"], r["sample"]], sort_keys=True, default=str)
                               for r in decided
                               if r.get("nontrivial", True) and r.get("witness") in ("reached", None, "n/a")
                               and (r["info"].get("vccs", 1) > 0)})
    samples = []
    for r in results[:: max(1, len(results) // 6)][:8]:
        samples.append({"query": r["name"], "entry": r["entry"], "shape": r["sample"], "verdict": r["verdict"],
                        "vccs": r["info"].get("vccs"), "symex_steps": r["info"].get("symex_steps"),
                        "solver_s": r["info"].get("solver_s"), "wall_s": round(r["wall_s"], 1)})
    ev = {
        "property_id": prop_id,
        "tier": tier,
        "seed": seed,
        "level": "model_checking",
        "coverage": {
            "evaluations": len(results),
            "distinct_nontrivial": distinct_nontrivial,
            "rule": meta.get("rule", "one evaluation = one solver query (harness entry x shape); it counts as non-trivial when CBMC generated at least one verification condition, the solver returned a verdict, and the query's WITNESS twin (same harness, final assert(0)) was shown reachable; distinct = distinct (harness, entry, shape)"),
            "samples": samples,
            "obligations": len(results),
            "discharged": n_holds,
            "violated_queries": n_viol,
            "inconclusive_queries": len({id(r) for r, _ in inconclusive}),
            "witness_twins_reached": sum(1 for r in results if r.get("witness") == "reached"),
            "total_vccs": sum(r["info"].get("vccs", 0) for r in results),
            "total_symex_steps": sum(r["info"].get("symex_steps", 0) for r in results),
            "solver_time_s": round(sum(r["info"].get("solver_s", 0.0) for r in results), 2),
            "cpu_wall_sum_s": round(sum(r["wall_s"] for r in results), 1),
            "functions_encoded": meta.get("functions", []),
            "units": meta.get("units", []),
            "bounds": meta.get("bounds", ""),
            "outside_bounds": meta.get("outside", ""),
            "stubs": meta.get("stubs", []),
            "backends": sorted({r.get("backend") or "" for r in results}),
            "exhaustive": bool(meta.get("exhaustive", False)),
            "checker_cmd": "cbmc 6.11 --unwinding-assertions --pointer-overflow-check --undefined-shift-check --signed-overflow-check --no-malloc-may-fail --drop-unused-functions (bounds/pointer checks are CBMC 6 defaults)",
            "trusted_base": ["cbmc 6.11 (front end, symex, C library models)", "SAT/SMT back end", "gcc+ASan/UBSan for replays", "harness oracles and stubs listed under 'stubs'"],
            "explanation": meta.get("explanation", ""),
            "known_findings_seen": sorted(seen),
            "queries": [{"q": r["name"], "v": r["verdict"], "w": r.get("witness"), "t": round(r["wall_s"], 1),
                         "vccs": r["info"].get("vccs"), "steps": r["info"].get("symex_steps"), "rss_mb": r.get("rss_mb")} for r in results],
            "peak_rss_mb": max([r.get("rss_mb") or 0 for r in results] + [0]),
        },
        "assumptions": meta.get("assumptions", []),
        "wall_s": round(wall, 2),
        "violations": len(violations),
    }
    if extra_evidence:
        ev["coverage"].update(extra_evidence)
    os.makedirs(os.path.join(OUTBASE, "evidence"), exist_ok=True)
    with open(os.path.join(OUTBASE, "evidence", "%s.json" % prop_id), "w") as f:
        json.dump(ev, f, indent=1, default=str)
    print("%s tier=%s: %d queries, %d hold, %d violated (%d known), %d inconclusive, %.0fs wall" %
          (prop_id, tier, len(results), n_holds, n_viol, len(known_hits), len(inconclusive), wall))
    if violations:
        return 1
    if inconclusive:
        return 2
    return 0


def replay_file(prop_id, queries, path):
    """Re-run a recorded counterexample natively: vcheck --replay <path>"""
    base = os.path.basename(path)
    qname = base.split("__")[0]
    cand = [q for q in queries if re.sub(r"[^A-Za-z0-9_.-]", "_", q.name) == qname]
    if not cand:
        print("no query named %s" % qname)
        return 2
    q = cand[0]
    os.makedirs(WORKROOT, exist_ok=True)
    workdir = tempfile.mkdtemp(prefix="r%d_" % os.getpid(), dir=WORKROOT)
    try:
        vals = [int(x) for x in open(path).read().split()]
        st, txt = replay_native(q, workdir, vals, path)
        print(txt)
        print("replay status: %s" % st)
        return 1 if st == "reproduced" else 0
    finally:
        shutil.rmtree(workdir, ignore_errors=True)
