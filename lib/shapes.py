"""Shape helpers: turn a table/file shape into -D defines (incl. the exact file length, which
the harness needs as a compile-time constant) -- mirrors harness/ref_encode.h's layout arithmetic."""


def varlen(v):
    n = 1
    while v >= 128:
        v >>= 7
        n += 1
    return n


def clist(xs):
    return "{" + ",".join(str(int(x)) for x in xs) + "}" if xs else "{0}"


def ref_file_len(kls, vls, blk, rsts, shs, sepl, irst, ver=2, pfx=0, no_trailer=False):
    pos = pfx
    first = 0
    offs = []
    for b, cnt in enumerate(blk):
        offs.append(pos)
        plen = 0
        nrst = 0
        for i in range(first, first + cnt):
            is_rst = (i == first) or rsts[i]
            sh = 0 if is_rst else shs[i]
            if is_rst:
                nrst += 1
            plen += varlen(sh) + varlen(kls[i] - sh) + varlen(vls[i]) + (kls[i] - sh) + vls[i]
        plen += 4 * nrst + 4
        pos += (4 if ver == 1 else varlen(plen)) + 4 + plen
        first += cnt
    # index
    plen = 0
    nrst = 0
    for b in range(len(blk)):
        if b == 0 or irst[b]:
            nrst += 1
        plen += 1 + varlen(sepl[b]) + varlen(varlen(offs[b])) + sepl[b] + varlen(offs[b])
    if not blk:
        nrst = 1
    plen += 4 * nrst + 4
    pos += (4 if ver == 1 else varlen(plen)) + 4 + plen
    if not no_trailer:
        pos += 512
    return pos


def cbytes2(rows, width):
    """{{b,b,..},{...}} with each row padded to width"""
    out = []
    for r in rows:
        r = list(r) + [0] * (width - len(r))
        out.append("{" + ",".join(str(int(x)) for x in r) + "}")
    return "{" + ",".join(out) + "}"


def reader_defines(kls, vls, blk, rsts=None, shs=None, sepl=None, irst=None, ver=2, pfx=0, comp=0,
                   no_trailer=False, ckeys=None, cseps=None, ctgt=None, cq=None, cq2=None, lcps=None, **extra):
    n = len(kls)
    assert sum(blk) == n and len(vls) == n
    if rsts is None:
        rsts = [1] * n
    if shs is None:
        shs = [0] * n
    if sepl is None:
        sepl = [1] * len(blk)
    if irst is None:
        irst = [1] * len(blk)
    # consistency: first entry of each block is a restart; shared <= min(kl[i-1], kl[i]); 0 at restarts
    first = 0
    for cnt in blk:
        assert cnt >= 1
        rsts[first] = 1
        first += cnt
    for i in range(n):
        if rsts[i]:
            shs[i] = 0
        else:
            assert shs[i] <= min(kls[i - 1], kls[i])
    d = {
        "N": n, "KLS": clist(kls), "VLS": clist(vls), "NB": len(blk), "BLK": clist(blk),
        "RSTS": clist(rsts), "SHS": clist(shs), "SEPL": clist(sepl), "IRST": clist(irst),
        "VER": ver, "PFX": pfx, "COMP": comp,
        "KLMAX": max([4] + list(kls)), "VLMAX": max([4] + list(vls)), "SEPMAX": max([4] + list(sepl)),
        "FILE_LEN": ref_file_len(kls, vls, blk, rsts, shs, sepl, irst, ver, pfx, no_trailer),
    }
    if no_trailer:
        d["NO_TRAILER"] = None
    if ckeys is not None:
        # concrete keys must be strictly increasing and consistent with the sharing shape
        ks = [bytes(k) for k in ckeys]
        assert [len(k) for k in ks] == list(kls)
        assert all(ks[i] < ks[i + 1] for i in range(n - 1)), "ckeys not strictly increasing"
        for i in range(n):
            if not rsts[i]:
                assert ks[i][:shs[i]] == ks[i - 1][:shs[i]]
        d["CKEYS"] = cbytes2(ckeys, d["KLMAX"])
    if lcps is not None:
        d["KT"] = kt_define(kls, lcps, d["KLMAX"])
    if cseps is not None:
        ss = [bytes(x) for x in cseps]
        assert [len(x) for x in ss] == list(sepl)
        first = 0
        for b, cnt in enumerate(blk):
            last = first + cnt - 1
            if ckeys is not None:
                assert bytes(ckeys[last]) <= ss[b]
                if b + 1 < len(blk):
                    assert ss[b] < bytes(ckeys[last + 1])
            first += cnt
        d["CSEPS"] = cbytes2(cseps, d["SEPMAX"])
    if ctgt is not None:
        d["CTGT"] = cbytes2([[len(t)] + list(t) for t in ctgt], 5)
    if cq is not None:
        d["CQ"] = "{" + ",".join(str(x) for x in (list(cq) + [0] * 4)[:4]) + "}"
        d["CQ2"] = "{" + ",".join(str(x) for x in (list(cq2 or []) + [0] * 4)[:4]) + "}"
    d.update(extra)
    return d


SYM, PREV = 256, 257


def key_templates(kls, lcps, base=0x40, special=None, all_concrete=()):
    """Byte templates for strictly increasing keys with prescribed common-prefix lengths.
    lcps[i] (i >= 1) = length of the common prefix of key i-1 and key i that the encoder may elide.
    Returns rows of codes (concrete 0..255 | SYM | PREV).  special: {(i, j): value} forces a value."""
    n = len(kls)
    lcps = [0] + list(lcps[1:]) if len(lcps) == n else [0] + list(lcps)
    assert len(lcps) == n
    code = [[SYM] * kls[i] for i in range(n)]
    conc = [[False] * kls[i] for i in range(n)]
    for i in range(1, n):
        L = lcps[i]
        assert L <= min(kls[i - 1], kls[i])
        for j in range(L):
            code[i][j] = PREV
            # every byte a comparison looks at must be concrete: symex propagates constants, not
            # equalities between symbols, so a symbolic shared prefix would not fold
            conc[i][j] = True
        if L < kls[i - 1]:
            assert L < kls[i], "key %d would not be greater than key %d" % (i, i - 1)
            conc[i - 1][L] = True
            conc[i][L] = True
        else:
            assert kls[i] > L, "equal keys"
    for (i, j) in (special or {}):
        conc[i][j] = True
    # entries that are added twice are compared with themselves: every byte concrete
    for i in all_concrete:
        for j in range(kls[i]):
            conc[i][j] = True
    # a concrete position that is a copy forces its source to be concrete
    for i in range(n - 1, 0, -1):
        for j in range(kls[i]):
            if conc[i][j] and code[i][j] == PREV:
                conc[i - 1][j] = True
    val = [[None] * kls[i] for i in range(n)]
    for i in range(n):
        for j in range(kls[i]):
            if code[i][j] == PREV:
                val[i][j] = val[i - 1][j]
            elif conc[i][j]:
                v = (base + 2 * i + 5 * j) & 0xff if j > 0 and i in all_concrete and not (j <= (lcps[i] if i else 0)) else base + 2 * i
                if special and (i, j) in special:
                    v = special[(i, j)]
                val[i][j] = v
                code[i][j] = v
    # sanity: decided at a concrete byte, increasing
    for i in range(1, n):
        L = lcps[i]
        if L < kls[i - 1]:
            assert val[i - 1][L] is not None and val[i][L] is not None and val[i - 1][L] < val[i][L], (i, L, val)
    return code


def kt_define(kls, lcps, klmax, **kw):
    rows = key_templates(kls, lcps, **kw)
    return cbytes2(rows, klmax)


def cc_args(d):
    out = []
    for k, v in sorted(d.items()):
        out.append("-D%s=%s" % (k, v) if v is not None else "-D%s" % k)
    return out


if __name__ == "__main__":
    import sys
    import json
    spec = json.loads(sys.argv[1])
    print(" ".join("'%s'" % a for a in cc_args(reader_defines(**spec))))
