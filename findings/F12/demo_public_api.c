#include <mtbl.h>
#include <stdio.h>
#include <stdlib.h>
#include <string.h>
#include <unistd.h>
static void mk(const char *p){ unlink(p); struct mtbl_writer *w=mtbl_writer_init(p,NULL); mtbl_writer_add(w,(const uint8_t*)"a",1,(const uint8_t*)"1",1); mtbl_writer_destroy(&w);}
static void setf(const char *dir,const char *body){ char tmp[512],fin[512]; snprintf(tmp,sizeof tmp,"%s/set.tmp",dir); snprintf(fin,sizeof fin,"%s/set.fileset",dir); FILE*f=fopen(tmp,"w"); fputs(body,f); fclose(f); rename(tmp,fin);}
int main(void){
  char dir[]="/tmp/dupdemo/dXXXXXX"; mkdtemp(dir); char p[512]; snprintf(p,sizeof p,"%s/t1.mtbl",dir); mk(p);
  snprintf(p,sizeof p,"%s/t2.mtbl",dir); mk(p);
  setf(dir,"t1.mtbl\nt1.mtbl\n");
  char sf[512]; snprintf(sf,sizeof sf,"%s/set.fileset",dir);
  struct mtbl_fileset_options *o=mtbl_fileset_options_init(); mtbl_fileset_options_set_reload_interval(o,0);
  struct mtbl_fileset *fs=mtbl_fileset_init(sf,o);
  const struct mtbl_source *s=mtbl_fileset_source(fs);
  struct mtbl_iter *it=mtbl_source_iter(s); const uint8_t*k,*v; size_t kl,vl; int n=0; while(mtbl_iter_next(it,&k,&kl,&v,&vl)==mtbl_res_success)n++; mtbl_iter_destroy(&it);
  printf("first view: %d entries\n",n);
  setf(dir,"t1.mtbl\nt1.mtbl\nt2.mtbl\n");      /* changed setfile, still naming t1 twice */
  mtbl_fileset_reload_now(fs);
  it=mtbl_source_iter(s); n=0; while(mtbl_iter_next(it,&k,&kl,&v,&vl)==mtbl_res_success)n++; mtbl_iter_destroy(&it);
  printf("second view: %d entries\n",n);
  mtbl_fileset_destroy(&fs); mtbl_fileset_options_destroy(&o);
  printf("destroyed\n"); return 0; }
