/*
 * Contract models of the four compression libraries used by mtbl/compression.c.
 * (CBMC builds only; native replays link the real libraries.)
 *
 * Image format produced by every model compressor ("tagged copy"):
 *   [tag][n as 4 bytes LE][n data bytes][padding up to c bytes]
 * where the produced size c is ANY value in [n+5, bound(n)] -- the library
 * promises only "c <= bound(n)", so the glue must offer at least bound(n).
 * A compressor succeeds iff the destination capacity is >= c.
 *
 * Bounds, quoted from the installed headers:
 *   LZ4_COMPRESSBOUND(n)  = n > 0x7E000000 ? 0 : n + n/255 + 16          (lz4.h)
 *   ZSTD_COMPRESSBOUND(n) = n + (n>>8) + (n < 128K ? (128K - n) >> 11 : 0) (zstd.h)
 *   snappy_max_compressed_length(n) = 32 + n + n/6                        (snappy.cc)
 *   deflateBound(default stream, n) = n + (n>>12) + (n>>14) + (n>>25) + 13 (deflate.c)
 * Levels: zlib accepts -1..9 (else Z_STREAM_ERROR); ZSTD_compress accepts
 * ZSTD_minCLevel()..ZSTD_maxCLevel() (others are clamped by the library, but
 * mtbl clamps itself and the model checks it did); LZ4_compress_HC accepts any int.
 */
#include <limits.h>
#include <stdlib.h>
#include <string.h>
#include <lz4.h>
#include <lz4hc.h>
#include <snappy-c.h>
#include <zlib.h>
#include <zstd.h>
#include "verif.h"
#include "codecs_stub.h"

#define H 5
#define TAG_LZ4 0xA1
#define TAG_ZSTD 0xA2
#define TAG_SNAPPY 0xA3
#define TAG_ZLIB 0xA4

int cs_level_seen = INT_MIN;		/* level handed to the last level-taking compressor */
int cs_bad_level;			/* a level outside the library's legal range was passed */
int cs_calls;
size_t cs_cap_seen, cs_bound_seen;	/* capacity offered / bound for that input */
size_t cs_inflate_total = (size_t)-1;	/* grow-loop harness: decompressed size the stream expands to */
size_t cs_inflate_calls;
int cs_inflate_bad;			/* inflate() was handed a non-writable / inconsistent window */

static size_t produce(uint8_t tag, const uint8_t *src, size_t n, uint8_t *dst, size_t cap, size_t bound)
{
	cs_calls++;
	cs_cap_seen = cap;
	cs_bound_seen = bound;
	if (bound < n + H)
		return 0;	/* library refuses this size */
	size_t c = (size_t)vn_range(0, UINT64_MAX);
	V_ASSUME(c >= n + H && c <= bound);
	if (cap < c)
		return 0;
	dst[0] = tag;
	dst[1] = n & 0xff;
	dst[2] = (n >> 8) & 0xff;
	dst[3] = (n >> 16) & 0xff;
	dst[4] = (n >> 24) & 0xff;
	for (size_t i = 0; i < CS_DATA_MAX; i++)
		if (i < n)
			dst[H + i] = src[i];
	return c;
}

/* returns n, or -1 malformed, or -2 destination too small */
static long long consume(uint8_t tag, const uint8_t *src, size_t srclen, uint8_t *dst, size_t cap)
{
	if (srclen < H || src[0] != tag)
		return -1;
	size_t n = (size_t)src[1] | ((size_t)src[2] << 8) | ((size_t)src[3] << 16) | ((size_t)src[4] << 24);
	if (srclen < H + n)
		return -1;
	if (cap < n)
		return -2;
	for (size_t i = 0; i < CS_DATA_MAX; i++)
		if (i < n)
			dst[i] = src[H + i];
	return (long long)n;
}

/* ---- LZ4 ---- */
int LZ4_compressBound(int n) { return LZ4_COMPRESSBOUND(n); }
int LZ4_compress_default(const char *src, char *dst, int n, int cap)
{
	if (n < 0 || cap < 0) return 0;
	return (int)produce(TAG_LZ4, (const uint8_t *)src, (size_t)n, (uint8_t *)dst, (size_t)cap, (size_t)LZ4_COMPRESSBOUND(n));
}
int LZ4_compress_HC(const char *src, char *dst, int n, int cap, int level)
{
	cs_level_seen = level;
	if (n < 0 || cap < 0) return 0;
	return (int)produce(TAG_LZ4, (const uint8_t *)src, (size_t)n, (uint8_t *)dst, (size_t)cap, (size_t)LZ4_COMPRESSBOUND(n));
}
int LZ4_decompress_safe(const char *src, char *dst, int srclen, int cap)
{
	if (srclen < 0 || cap < 0) return -1;
	long long r = consume(TAG_LZ4, (const uint8_t *)src, (size_t)srclen, (uint8_t *)dst, (size_t)cap);
	return r < 0 ? -1 : (int)r;
}

/* ---- zstd ---- */
int ZSTD_minCLevel(void) { return -(1 << 17); }
int ZSTD_maxCLevel(void) { return 22; }
size_t ZSTD_compressBound(size_t n) { return ZSTD_COMPRESSBOUND(n); }
unsigned ZSTD_isError(size_t code) { return code > (size_t)-120; }
size_t ZSTD_compress(void *dst, size_t cap, const void *src, size_t n, int level)
{
	cs_level_seen = level;
	if (level < ZSTD_minCLevel() || level > ZSTD_maxCLevel())
		cs_bad_level = 1;
	size_t c = produce(TAG_ZSTD, src, n, dst, cap, ZSTD_COMPRESSBOUND(n));
	return c ? c : (size_t)-70;	/* dstSize_tooSmall */
}
unsigned long long ZSTD_getFrameContentSize(const void *src, size_t srclen)
{
	const uint8_t *p = src;
	if (srclen < H || p[0] != TAG_ZSTD)
		return ZSTD_CONTENTSIZE_ERROR;
	/* documented: returns the decompressed size, which is 0 for an empty frame */
	return (unsigned long long)p[1] | ((unsigned long long)p[2] << 8) | ((unsigned long long)p[3] << 16) | ((unsigned long long)p[4] << 24);
}
size_t ZSTD_decompress(void *dst, size_t cap, const void *src, size_t srclen)
{
	long long r = consume(TAG_ZSTD, src, srclen, dst, cap);
	return r < 0 ? (size_t)-20 : (size_t)r;
}

/* ---- snappy ---- */
size_t snappy_max_compressed_length(size_t n) { return 32 + n + n / 6; }
snappy_status snappy_compress(const char *src, size_t n, char *dst, size_t *dstlen)
{
	size_t c = produce(TAG_SNAPPY, (const uint8_t *)src, n, (uint8_t *)dst, *dstlen, 32 + n + n / 6);
	if (!c)
		return SNAPPY_BUFFER_TOO_SMALL;
	*dstlen = c;
	return SNAPPY_OK;
}
snappy_status snappy_uncompressed_length(const char *src, size_t srclen, size_t *result)
{
	const uint8_t *p = (const uint8_t *)src;
	if (srclen < H || p[0] != TAG_SNAPPY)
		return SNAPPY_INVALID_INPUT;
	*result = (size_t)p[1] | ((size_t)p[2] << 8) | ((size_t)p[3] << 16) | ((size_t)p[4] << 24);
	return SNAPPY_OK;
}
snappy_status snappy_uncompress(const char *src, size_t srclen, char *dst, size_t *dstlen)
{
	long long r = consume(TAG_SNAPPY, (const uint8_t *)src, srclen, (uint8_t *)dst, *dstlen);
	if (r == -2) return SNAPPY_BUFFER_TOO_SMALL;
	if (r < 0) return SNAPPY_INVALID_INPUT;
	*dstlen = (size_t)r;
	return SNAPPY_OK;
}

/* ---- zlib ---- */
static int zl_level;
int deflateInit_(z_streamp s, int level, const char *version, int stream_size)
{
	(void)version; (void)stream_size;
	cs_level_seen = level;
	if (level < -1 || level > 9) {
		cs_bad_level = 1;
		return Z_STREAM_ERROR;
	}
	zl_level = level;
	s->total_in = s->total_out = 0;
	return Z_OK;
}
uLong deflateBound(z_streamp s, uLong n)
{
	(void)s;
	return n + (n >> 12) + (n >> 14) + (n >> 25) + 13;
}
int deflate(z_streamp s, int flush)
{
	/* only the one-shot Z_FINISH use is modelled */
	if (flush != Z_FINISH)
		return Z_STREAM_ERROR;
	size_t n = s->avail_in;
	size_t c = produce(TAG_ZLIB, s->next_in, n, s->next_out, s->avail_out, n + (n >> 12) + (n >> 14) + (n >> 25) + 13);
	if (!c) {
		/* output space exhausted before the stream ended */
		s->avail_out = 0;
		return Z_OK;
	}
	s->next_in += n;
	s->avail_in = 0;
	s->total_in = n;
	s->next_out += c;
	s->avail_out -= c;
	s->total_out = c;
	return Z_STREAM_END;
}
int deflateEnd(z_streamp s) { (void)s; return Z_OK; }

static size_t zl_done;
int inflateInit_(z_streamp s, const char *version, int stream_size)
{
	(void)version; (void)stream_size;
	s->total_in = s->total_out = 0;
	zl_done = 0;
	return Z_OK;
}
/* inflate(Z_FINISH): fills the output window; Z_STREAM_END when everything has
 * been produced, else Z_BUF_ERROR ("no progress possible / more output space
 * needed"), as zlib.h documents for Z_FINISH with too little room. */
int inflate(z_streamp s, int flush)
{
	(void)flush;
	cs_inflate_calls++;
	const uint8_t *src = s->next_in - s->total_in;	/* start of the image */
	size_t srclen = s->avail_in + s->total_in;
	size_t n;
	if (cs_inflate_total != (size_t)-1) {
		n = cs_inflate_total;		/* grow-loop harness: highly compressible stream */
	} else {
		if (srclen < H || src[0] != TAG_ZLIB)
			return Z_DATA_ERROR;
		n = (size_t)src[1] | ((size_t)src[2] << 8) | ((size_t)src[3] << 16) | ((size_t)src[4] << 24);
		if (srclen < H + n)
			return Z_DATA_ERROR;
	}
	size_t k = n - zl_done;
	if (k > s->avail_out)
		k = s->avail_out;
#ifndef VERIF_NATIVE
	if (s->avail_out > 0 && !__CPROVER_w_ok(s->next_out, s->avail_out))
		cs_inflate_bad = 1;
#endif
	if (cs_inflate_total != (size_t)-1) {
		/* mark the first and last byte of the chunk with the position pattern */
		if (k > 0) {
			s->next_out[0] = CS_PATTERN(zl_done);
			s->next_out[k - 1] = CS_PATTERN(zl_done + k - 1);
		}
	} else {
		for (size_t i = 0; i < CS_DATA_MAX; i++)
			if (i < k)
				s->next_out[i] = src[H + zl_done + i];
	}
	zl_done += k;
	s->next_out += k;
	s->avail_out -= k;
	s->total_out += k;
	if (zl_done == n) {
		s->total_in = srclen;
		s->avail_in = 0;
		return Z_STREAM_END;
	}
	return Z_BUF_ERROR;
}
int inflateEnd(z_streamp s) { (void)s; return Z_OK; }
