#ifndef CODECS_STUB_H
#define CODECS_STUB_H
#include <stddef.h>
#ifndef CS_DATA_MAX
#define CS_DATA_MAX 4	/* bytes of payload the model codecs copy; larger inputs are sizing-only */
#endif
#define CS_PATTERN(pos) ((uint8_t)(((pos) * 7u + 3u) & 0xff))
extern int cs_level_seen, cs_bad_level, cs_calls, cs_inflate_bad;
extern size_t cs_cap_seen, cs_bound_seen, cs_inflate_total, cs_inflate_calls;
#endif
