/* Byte-loop models of memcpy/memcmp/memset/bcmp for CBMC builds.
 * CBMC's built-in memcpy goes through __CPROVER_array_copy of the whole
 * object, which defeats per-byte constant propagation (lengths and offsets a
 * reader parses back out of a file image stay "symbolic" during symex even
 * though they are constants) -- see DESIGN.md 2.4(5).  Semantics are the C
 * standard's; overlapping memcpy is not exercised by mtbl. */
#ifndef VERIF_NATIVE
#include <stddef.h>
void *memcpy(void *dst, const void *src, size_t n)
{
	unsigned char *d = dst;
	const unsigned char *s = src;
	for (size_t i = 0; i < n; i++)
		d[i] = s[i];
	return dst;
}
int memcmp(const void *a, const void *b, size_t n)
{
	const unsigned char *x = a, *y = b;
	for (size_t i = 0; i < n; i++) {
		if (x[i] != y[i])
			return x[i] < y[i] ? -1 : 1;
	}
	return 0;
}
int bcmp(const void *a, const void *b, size_t n)
{
	return memcmp(a, b, n);
}
void *memset(void *dst, int c, size_t n)
{
	unsigned char *d = dst;
	for (size_t i = 0; i < n; i++)
		d[i] = (unsigned char)c;
	return dst;
}
#endif
