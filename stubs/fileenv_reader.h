/* Environment of mtbl/reader.c: one ghost file handed out by fstat/mmap.
 * #include this, then #include "mtbl/reader.c", then "fileenv_reader_undef.h". */
#ifndef FILEENV_READER_H
#define FILEENV_READER_H
#include <sys/mman.h>
#include <sys/stat.h>
#include <fcntl.h>
#include <stdlib.h>
#include <string.h>
#include <unistd.h>
#include "verif.h"

/* mmap's failure sentinel is an environment constant.  The POSIX value (void*)-1
 * cannot be decided unequal to an object address by CBMC's symex simplifier, so the
 * dead "mapping failed" branch would be explored and merged, and every field of the
 * reader would lose constant propagation.  A sentinel that is the address of a
 * distinct object folds.  The stub returns this same sentinel when it models failure. */
#ifndef VERIF_NATIVE
static char verif_map_failed_obj;
#undef MAP_FAILED
#define MAP_FAILED ((void *)&verif_map_failed_obj)
#endif
static uint8_t *fe_file;	/* set by the harness: exactly fe_len bytes */
static size_t fe_len;
static int fe_n_mmap, fe_n_munmap, fe_bad_unmap, fe_n_open, fe_n_close, fe_bad_madvise;

static int verif_fstat(int fd, struct stat *ss)
{
	(void)fd;
	/* no memset: CBMC would lose constant propagation of st_size through the array_set model */
	ss->st_size = (off_t)fe_len;
	return 0;
}
static void *verif_mmap(void *addr, size_t len, int prot, int flags, int fd, off_t off)
{
	(void)addr; (void)prot; (void)flags; (void)fd; (void)off;
	if (len != fe_len)
		fe_bad_unmap = 1;
	fe_n_mmap++;
	return fe_file;
}
static int verif_munmap(void *addr, size_t len)
{
	if (addr != fe_file || len != fe_len)
		fe_bad_unmap = 1;
	fe_n_munmap++;
	return 0;
}
static int verif_open(const char *path, int flags, ...)
{
	(void)path; (void)flags;
	fe_n_open++;
	return 7;
}
static int verif_close(int fd)
{
	(void)fd;
	fe_n_close++;
	return 0;
}
static int verif_posix_madvise(void *addr, size_t len, int advice)
{
	(void)advice;
	if (addr != fe_file || len > fe_len)
		fe_bad_madvise = 1;
	return 0;
}
static char *verif_getenv(const char *name)
{
	(void)name;
	return NULL;
}
/* free() as seen by reader.c.  While the harness is inside a lookup constructor with
 * fe_cut_null_create set, reaching free() means the "no block for this key -> return NULL" path
 * of reader_iter_init(); the harness explores that case in a separate query (DESIGN.md C02), and
 * cutting it here keeps the dead-in-this-query path from being merged into every later access. */
static int fe_in_create, fe_cut_null_create;
static void verif_free_reader(void *p)
{
	if (fe_in_create && fe_cut_null_create) {
		/* the harness assumed the query is not beyond the last index key, so this path must
		 * be dead; if the code takes it anyway that is a wrong "nothing found" */
		V_ASSERT(0, "C02: lookup constructor gave up (no block) for a key that is not beyond the last index key");
		V_ASSUME(0);
	}
	free(p);
}
#define free verif_free_reader
#define fstat verif_fstat
#define mmap verif_mmap
#define munmap verif_munmap
#define open verif_open
#define close verif_close
#define posix_madvise verif_posix_madvise
#define getenv verif_getenv
#endif
