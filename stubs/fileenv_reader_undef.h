#undef fstat
#undef mmap
#undef munmap
#undef open
#undef close
#undef posix_madvise
#undef getenv
#undef free
