/* C07 (second harness): libmy/my_fileset.c itself (#included) -- setfile change detection and
 * load / keep / unload of entries by name.  Environment: stat(2) (setfile inode+mtime symbolic per
 * generation; which listed files exist is symbolic), fopen/getline/fclose hand out the lines of the
 * current generation (relative and absolute names), qsort/bsearch by contract, dirname fixed.
 * Two reloads are run; the user callbacks count loads/unloads per name. */
#include <stdio.h>
#include <stdlib.h>
#include <string.h>
#include <sys/stat.h>
#include <libgen.h>
#include "verif.h"

#define NNAMES 3
/* what a generation lists: bit i set = line i present; lines: "a\n", "b\n", "/d/c\n" (absolute) */
static unsigned G_lines[2];
static unsigned G_exists[2];		/* which of the files exist at that generation */
static unsigned long G_ino[2], G_mtime[2];
static int G_gen;
static const char *const L_text[NNAMES] = { "a\n", "b\n", "/d/c\n" };
static const char *const L_path[NNAMES] = { "/d/a", "/d/b", "/d/c" };

static int name_index(const char *p)
{
	for (int i = 0; i < NNAMES; i++)
		if (strcmp(p, L_path[i]) == 0) return i;
	return -1;
}
static int stat_calls_setfile;
static int verif_stat(const char *path, struct stat *sb)
{
	if (strcmp(path, "/d/setfile") == 0) {
		stat_calls_setfile++;
		sb->st_ino = G_ino[G_gen];
		sb->st_mtime = (time_t)G_mtime[G_gen];
		return 0;
	}
	int i = name_index(path);
	if (i >= 0 && ((G_exists[G_gen] >> i) & 1)) return 0;
	return -1;
}
static int fp_line, fp_open, n_fopen;
static FILE *verif_fopen(const char *p, const char *m) { (void)p; (void)m; fp_line = 0; fp_open++; n_fopen++; return (FILE *)&fp_line; }
static int verif_fclose(FILE *f) { (void)f; fp_open--; return 0; }
static char linebuf[16];
static ssize_t verif_getline(char **line, size_t *n, FILE *f)
{
	(void)f;
	while (fp_line < NNAMES && !((G_lines[G_gen] >> fp_line) & 1)) fp_line++;
	if (fp_line >= NNAMES) return -1;
	const char *t = L_text[fp_line++];
	size_t l = strlen(t);
	for (size_t i = 0; i <= l; i++) linebuf[i] = t[i];
	*line = linebuf;
	*n = sizeof(linebuf);
	return (ssize_t)l;
}
static char *verif_dirname(char *p) { (void)p; return (char *)"/d"; }
static void verif_qsort(void *base, size_t n, size_t size, int (*cmp)(const void *, const void *))
{
	void **a = base;
	(void)size;
	for (size_t i = 1; i < NNAMES; i++) {
		if (i >= n) break;
		for (size_t j = i; j > 0; j--) {
			if (cmp(&a[j - 1], &a[j]) > 0) { void *t = a[j - 1]; a[j - 1] = a[j]; a[j] = t; }
			else break;
		}
	}
}
static void *verif_bsearch(const void *key, const void *base, size_t n, size_t size, int (*cmp)(const void *, const void *))
{
	/* contract on a sorted array: a matching element, or NULL if there is none */
	const char *b = base;
	for (size_t i = 0; i < NNAMES; i++)
		if (i < n && cmp(key, b + i * size) == 0) return (void *)(b + i * size);
	return NULL;
}
#define stat(p, sb) verif_stat((p), (sb))
#define fopen verif_fopen
#define fclose verif_fclose
#define getline verif_getline
#define dirname verif_dirname
#define qsort verif_qsort
#define bsearch verif_bsearch
#define fprintf(...) ((void)0)
#define free(p) verif_free_line(p)
static void verif_free_line(void *p);
#include "libmy/my_fileset.c"
#undef free
static void verif_free_line(void *p) { if (p != (void *)linebuf) free(p); }	/* getline's buffer is ours */

static int loads[NNAMES], unloads[NNAMES], bad_unload;
static int tokens[NNAMES];
static void *cb_load(struct my_fileset *fs, const char *fname)
{
	(void)fs;
	int i = name_index(fname);
	if (i < 0) return NULL;
	loads[i]++;
	return &tokens[i];
}
static void cb_unload(struct my_fileset *fs, const char *fname, void *ptr)
{
	(void)fs;
	int i = name_index(fname);
	if (i < 0 || ptr != &tokens[i]) { bad_unload = 1; return; }
	unloads[i]++;
}

static void check_view(struct my_fileset *fs, unsigned want)
{
	unsigned seen = 0;
	const char *fn; void *ptr;
	size_t i = 0;
	const char *prev = NULL;
	for (i = 0; i < NNAMES + 1; i++) {
		if (!my_fileset_get(fs, i, &fn, &ptr)) break;
		int k = name_index(fn);
		V_ASSERT(k >= 0 && ptr == &tokens[k], "C07: entry without its loaded object / unknown name");
		seen |= 1u << k;
		if (prev) V_ASSERT(strcmp(prev, fn) < 0, "C07: entries not sorted by name");
		prev = fn;
	}
	V_ASSERT(seen == want, "C07: the loaded set is not exactly the files named in the setfile that exist");
}

void h_myfileset(void)
{
	verif_stop_is_violation = 1;
	for (int g = 0; g < 2; g++) {
		G_lines[g] = (unsigned)vn_range(0, 7);
		G_exists[g] = (unsigned)vn_range(0, 7);
		G_ino[g] = (unsigned long)vn_range(1, 3);
		G_mtime[g] = (unsigned long)vn_range(1, 3);
	}
	G_gen = 0;
	struct my_fileset *fs = my_fileset_init("/d/setfile", cb_load, cb_unload, NULL);
	my_fileset_reload(fs);
	unsigned live = G_lines[0] & G_exists[0];
	check_view(fs, live);
	for (int i = 0; i < NNAMES; i++)
		V_ASSERT(loads[i] == (int)((live >> i) & 1) && unloads[i] == 0, "C07: first reload loads each listed, existing file exactly once");
	/* second generation */
	int l0[NNAMES];
	for (int i = 0; i < NNAMES; i++) l0[i] = loads[i];
	int opens_before = n_fopen;
	G_gen = 1;
	my_fileset_reload(fs);
	bool changed = G_ino[1] != G_ino[0] || G_mtime[1] != G_mtime[0];
	if (!changed) {
		V_ASSERT(n_fopen == opens_before, "C07: unchanged setfile (same inode and mtime) must not be re-read");
		check_view(fs, live);
		for (int i = 0; i < NNAMES; i++)
			V_ASSERT(loads[i] == l0[i] && unloads[i] == 0, "C07: unchanged setfile: nothing loaded or unloaded");
	} else {
		unsigned live1 = G_lines[1] & G_exists[1];
		check_view(fs, live1);
		for (int i = 0; i < NNAMES; i++) {
			int was = (live >> i) & 1, is = (live1 >> i) & 1;
			V_ASSERT(loads[i] == l0[i] + ((!was && is) ? 1 : 0), "C07: a kept entry is not reloaded; a new one is loaded once");
			V_ASSERT(unloads[i] == ((was && !is) ? 1 : 0), "C07: a removed entry is unloaded exactly once; a kept one is not");
		}
		live = live1;
	}
	V_ASSERT(fp_open == 0, "C18: setfile left open");
	my_fileset_destroy(&fs);
	V_ASSERT(fs == NULL, "destroy clears handle");
	for (int i = 0; i < NNAMES; i++)
		V_ASSERT(loads[i] == unloads[i], "C18: every loaded entry is unloaded by the time the fileset is destroyed");
	V_ASSERT(!bad_unload, "C07: unload called with the wrong object");
	V_WITNESS();
}
V_MAIN(V_E(h_myfileset))
