/* C13 layer B': mtbl/threadpool.c (#included) under a SEQUENTIAL scheduler.
 *
 * pthread calls are replaced: a mutex is a lock flag (double lock / unlock of an
 * unlocked mutex are violations), pthread_create records the thread, and
 * pthread_cond_wait means "this actor would block": it releases the mutex, sets a
 * flag and RETURNS from the enclosing function.  Every wait in threadpool.c sits at
 * the top of its function's protocol step, so calling the function again later
 * resumes it.  The harness is the scheduler: at every step the solver picks which
 * enabled actor runs next (dispatcher / result handler / worker k), which covers
 * every interleaving of the actors AT THE GRANULARITY OF WHOLE PROTOCOL STEPS
 * (dispatch, one job execution, one result hand-off) -- not preemption inside a
 * step, and no real threads: data races and lost wake-ups between a predicate
 * check and the wait are outside (C14 / layer C).
 *
 * Decided: every job's result is delivered exactly once, in dispatch order when
 * ordered; never more worker threads than max; result_handler_destroy and
 * threadpool_destroy terminate (no actor left blocked with work outstanding);
 * mutexes are released at the end of every step. */
#include <pthread.h>
#include <stdlib.h>
#include "verif.h"

#ifndef NJOBS
#define NJOBS 3
#endif
#ifndef MAXT
#define MAXT 2
#endif
#ifndef ORDERED
#define ORDERED 1
#endif
#ifndef STEPS
#define STEPS 8
#endif

static int v_blocked, v_lock_error, v_locks_held;
static int v_lock(pthread_mutex_t *m) { int *f = (int *)m; if (*f) v_lock_error = 1; *f = 1; v_locks_held++; return 0; }
static int v_unlock(pthread_mutex_t *m) { int *f = (int *)m; if (!*f) v_lock_error = 1; *f = 0; v_locks_held--; return 0; }
static int v_mutex_init(pthread_mutex_t *m) { *(int *)m = 0; return 0; }

struct thread;
static void *T_arg[MAXT + 2];
static int T_exited[MAXT + 2], T_is_handler[MAXT + 2];
static size_t n_threads;
/* the start routine is not stored: taking the address of thread_worker / result_worker would make
 * them callees of thr->cb(...) for CBMC (function pointers are resolved by type); the scheduler
 * below calls them by name */
static int v_create(pthread_t *t, void *arg)
{
	V_ASSUME(n_threads < MAXT + 2);
	T_arg[n_threads] = arg;
	*t = (pthread_t)(n_threads + 1);
	n_threads++;
	return 0;
}
static int v_join(pthread_t t);

#define pthread_mutex_init(m, a) v_mutex_init(m)
#define pthread_mutex_destroy(m) 0
#define pthread_cond_init(c, a) 0
#define pthread_cond_destroy(c) 0
#define pthread_cond_signal(c) 0
#define pthread_mutex_lock(m) v_lock(m)
#define pthread_mutex_unlock(m) v_unlock(m)
#define pthread_create(t, a, f, x) v_create((t), (x))
#define pthread_join(t, r) v_join(t)
#define pthread_cond_wait(c, m) do { v_unlock(m); v_blocked = 1; return 0; } while (0)
#include "mtbl/threadpool.c"
#undef pthread_cond_wait

/* ---- jobs ---- */
static int job_runs[NJOBS], job_delivered[NJOBS];
static int order[NJOBS + 1];
static size_t n_delivered;
static void *job_fn(void *arg)
{
	int j = *(int *)arg;
	job_runs[j]++;
	return arg;
}
static void result_fn(void *res, void *cbdata)
{
	(void)cbdata;
	int j = *(int *)res;
	job_delivered[j]++;
	if (n_delivered < NJOBS + 1) order[n_delivered] = j;
	n_delivered++;
}
static int job_id[NJOBS];

static struct threadpool *pool;
static struct result_handler *rh;
static int handler_done;

/* the worker body may run when its thread has been given something to do */
static void run_worker(size_t k)
{
	struct thread *thr = T_arg[k];
	if (T_exited[k] || T_is_handler[k] || !thr->running) return;
	v_blocked = 0;
	thread_worker(thr);
	if (!v_blocked) T_exited[k] = 1;	/* returned for real: shutdown */
	V_ASSERT(v_locks_held == 0, "C13: a worker step ended with a mutex still held");
}
/* one iteration of result_worker()'s loop, when it would not block */
static void run_handler(void)
{
	struct resultq *rq = rh ? rh->rq : NULL;
	if (!rq || handler_done) return;
	bool can = (rq->head != NULL && !rq->head->running) || (rq->head == NULL && rq->finished && rq->nthreads == 0);
	if (!can) return;
	void *res = NULL;
	v_blocked = 0;
	bool got = resultq_next(rq, &res);
	V_ASSERT(!v_blocked, "C13: result handler blocked although a finished result (or the end) was available");
	if (got) rh->cb(res, rh->cbdata);
	else { resultq_destroy(&rh->rq); handler_done = 1; }
	V_ASSERT(v_locks_held == 0, "C13: the result handler step ended with a mutex still held");
}
static int v_join(pthread_t t)
{
	size_t k = (size_t)t - 1;
	/* the harness lets every worker finish before it joins anything (drain() below), so joining
	 * only has to let the joined thread itself run to its end */
	if (T_is_handler[k]) {
		for (int round = 0; round < NJOBS + 1; round++)
			run_handler();
		V_ASSERT(handler_done, "C13: joining the result handler never returns (it is left blocked: hang)");
	} else {
		run_worker(k);
		V_ASSERT(T_exited[k], "C13: joining a worker never returns (it is left blocked: hang)");
	}
	return 0;
}

/* let everybody run until nothing is enabled any more */
static void drain(void)
{
	for (int round = 0; round < NJOBS; round++) {
		for (size_t w = 1; w < MAXT + 1; w++) if (w < n_threads) run_worker(w);
		run_handler();
	}
}

void h_pool(void)
{
	verif_stop_is_violation = 1;
	pool = threadpool_init(MAXT);
	rh = result_handler_init(result_fn, NULL);
	T_is_handler[0] = 1;		/* first thread created is the result handler */
	V_ASSERT(n_threads == 1, "result handler thread created");
	size_t next_job = 0;
	for (int i = 0; i < NJOBS; i++) job_id[i] = i;
	for (int step = 0; step < STEPS; step++) {
		unsigned a = (unsigned)vn_range(0, 2 + MAXT);
		if (a == 0) {
			/* dispatcher: only when it would not block in threadpool_next() */
			if (next_job < NJOBS && (pool->head != NULL || pool->count < pool->max)) {
				v_blocked = 0;
				threadpool_dispatch(pool, rh, ORDERED, job_fn, &job_id[next_job]);
				V_ASSERT(!v_blocked, "C13: dispatch blocked although a thread was available");
				next_job++;
				V_ASSERT(v_locks_held == 0, "C13: dispatch ended with a mutex still held");
			}
		} else if (a == 1) {
			run_handler();
		} else {
			run_worker(a - 1);	/* thread table slots 1.. are workers */
		}
		V_ASSERT(pool->count <= pool->max && n_threads <= 1 + MAXT, "C13: more worker threads than the configured maximum");
		V_ASSERT(!v_lock_error, "C13: mutex locked twice / unlocked while not held");
	}
	/* everything dispatched so far must come out, exactly once, then the pool shuts down */
	drain();
	result_handler_destroy(&rh);
	V_ASSERT(rh == NULL && handler_done, "C13: result_handler_destroy returned before the handler finished");
	V_ASSERT(n_delivered == next_job, "C13: a dispatched job's result was lost or delivered twice");
	for (size_t j = 0; j < NJOBS; j++) {
		V_ASSERT(job_runs[j] == (j < next_job) && job_delivered[j] == (j < next_job), "C13: every dispatched job runs once and is delivered once");
		if (ORDERED && j < next_job)
			V_ASSERT(order[j] == (int)j, "C13: ordered delivery violated");
	}
	threadpool_destroy(&pool);
	V_ASSERT(pool == NULL, "C13: threadpool_destroy did not complete");
	for (size_t k = 1; k < MAXT + 2; k++)
		if (k < n_threads) V_ASSERT(T_exited[k], "C13: a worker thread was not shut down");
	V_ASSERT(!v_lock_error && v_locks_held == 0, "C13: mutex discipline");
	V_WITNESS();
}
V_MAIN(V_E(h_pool))
