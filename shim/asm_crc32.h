/* C model of the x86 CRC32 instruction, spliced into libmy/crc32c-sse42.c by
 * redefining asm(...).  The stringified operand text keeps the mnemonic
 * (crc32q/l/w/b), so a wrong operand width in the source stays visible.
 * Intel SDM, CRC32: accumulate the source operand, least significant byte
 * first, into the 32-bit CRC using the reflected polynomial 0x82F63B78; the
 * 64-bit form zero-extends the result. */
#ifndef VERIF_ASM_CRC32_H
#define VERIF_ASM_CRC32_H
#include <stdint.h>
static inline uint64_t verif_crc32_insn(const char *asm_text, uint64_t crc_in, uint64_t value_in)
{
	/* asm_text is e.g. "\"crc32q %[value], %[crc]\\n\" : [crc] \"+r\" (crc) : ..." */
	if (asm_text[1] == 'c' && asm_text[2] == 'p' && asm_text[3] == 'u')
		return crc_in;			/* "cpuid": outputs stay unconstrained */
	int nbytes = 0;
	if (asm_text[1] == 'c' && asm_text[2] == 'r' && asm_text[3] == 'c' && asm_text[4] == '3' && asm_text[5] == '2') {
		switch (asm_text[6]) {
		case 'q': nbytes = 8; break;
		case 'l': nbytes = 4; break;
		case 'w': nbytes = 2; break;
		case 'b': nbytes = 1; break;
		default: nbytes = 0;
		}
	}
	extern void verif_unknown_asm(void);
	if (nbytes == 0)
		verif_unknown_asm();		/* harness asserts this is never reached */
	uint32_t c = (uint32_t)crc_in;
	for (int b = 0; b < 8; b++) {
		if (b < nbytes) {
			c ^= (uint32_t)((value_in >> (8 * b)) & 0xff);
			for (int k = 0; k < 8; k++)
				c = (c >> 1) ^ (0x82F63B78u & (0u - (c & 1u)));
		}
	}
	return c;
}
static uint64_t crc, value;	/* dummies so that the cpuid asm expands too */
#define asm(...) crc = verif_crc32_insn(#__VA_ARGS__, crc, value)
#endif
