/* Found before the system header via -I/verif/shim: routes mtbl's own
 * assert() -- its only error path -- to verif_abort(), see DESIGN.md 2.3.
 * NDEBUG is never defined in mtbl's build, so asserts are always live. */
#undef assert
#ifdef __cplusplus
extern "C"
#endif
void verif_abort(const char *expr, const char *file, int line);
#define assert(e) ((e) ? (void)0 : verif_abort(#e, __FILE__, __LINE__))
#ifndef static_assert
#define static_assert _Static_assert
#endif
